/-
  C03 — In-memory store: each query equals the filter spec over the retained set.

  Model: `Cache.find`, `scanLoop`, `Cache.findIdx`, `topkLoop`, `idxCandidate` (MocModel/Cache.lean).
  Stage reached so far (see DESIGN.md §5 C03): the ordered-scan path is the `limit` first matches of
  the tree walk for every store content and filter; the index path's candidate test is exactly the
  NIP-01 id/author/kind/tag conditions; the full merge theorem is validated by the step-by-step
  correspondence and the `findAllowed` monitor.
-/
import MocProps.C02
import MocProps.CacheLemmas

set_option linter.unusedSimpArgs false

namespace Moc.C03
open Moc Moc.CacheL

/-- how many more events a limit-counting matcher accepts: unlimited (`none`) or `limit - cnt` -/
def remaining (f : Filter) (cnt : Int) : Option Nat :=
  match f.limit with
  | none => none
  | some n => some (n - cnt).toNat

def takeOpt {α} : Option Nat → List α → List α
  | none, l => l
  | some n, l => l.take n

theorem done_iff_remaining_zero (f : Filter) (cnt : Int) :
    (LMatcher.done { f := f, cnt := cnt }) = true ↔ remaining f cnt = some 0 := by
  unfold LMatcher.done remaining Gen.limitDone
  cases h : f.limit with
  | none => simp
  | some n => simp; omega

/-- **C03, the ordered-scan path**: walking any ordered list of events with a limit-counting matcher
    returns exactly the first `limit` events that satisfy the NIP-01 predicate (all of them when the filter
    has no limit, none when the limit is ≤ 0) — for every filter, every list, every starting count. -/
theorem scanLoop_eq (f : Filter) (hwf : f.WF) (es : List Event) (hne : ∀ e ∈ es, C02.TagsNonEmpty e) :
    ∀ cnt : Int, scanLoop { f := f, cnt := cnt } es =
      .ok (takeOpt (remaining f cnt) (es.filter (nip01MatchB f ·))) := by
  induction es with
  | nil =>
    intro cnt
    cases h : remaining f cnt <;> simp [scanLoop, takeOpt, h]
  | cons e es ih =>
    intro cnt
    have he := C02.matchOne_eq_spec f e hwf (hne e (by simp))
    have hes : ∀ e' ∈ es, C02.TagsNonEmpty e' := fun e' h => hne e' (List.mem_cons_of_mem _ h)
    unfold scanLoop
    by_cases hd : (LMatcher.done { f := f, cnt := cnt }) = true
    · have hz := (done_iff_remaining_zero f cnt).1 hd
      simp [hd, hz, takeOpt]
    · have hd' : (LMatcher.done { f := f, cnt := cnt }) = false := by simpa using hd
      have hnz : remaining f cnt ≠ some 0 := fun h => hd ((done_iff_remaining_zero f cnt).2 h)
      simp only [hd', Bool.false_eq_true, if_false, LMatcher.limitMatch, he, Gen.limitMatchCounts]
      by_cases hm : nip01MatchB f e = true
      · simp only [hm, if_true, ih hes (cnt + 1), List.filter_cons]
        -- remaining decreases by one
        cases hl : f.limit with
        | none => simp [remaining, hl, takeOpt]
        | some n =>
          have hpos : 0 < (n - cnt).toNat := by
            simp only [remaining, hl, ne_eq, Option.some.injEq] at hnz
            omega
          have : (n - (cnt + 1)).toNat = (n - cnt).toNat - 1 := by omega
          simp only [remaining, hl, takeOpt, this]
          obtain ⟨k, hk⟩ : ∃ k, (n - cnt).toNat = k + 1 := ⟨(n - cnt).toNat - 1, by omega⟩
          simp [hk]
      · have hm' : nip01MatchB f e = false := by simpa using hm
        simp only [hm', Bool.false_eq_true, if_false, ih hes cnt, List.filter_cons]

/-- the scan never panics and never returns a non-matching or out-of-order event -/
theorem scanLoop_sublist (f : Filter) (hwf : f.WF) (es : List Event) (hne : ∀ e ∈ es, C02.TagsNonEmpty e) :
    ∃ r, scanLoop { f := f } es = .ok r ∧ List.Sublist r es ∧ ∀ e ∈ r, nip01Match f e := by
  refine ⟨_, scanLoop_eq f hwf es hne 0, ?_, ?_⟩
  · cases h : remaining f 0 with
    | none => simp only [takeOpt]; exact List.filter_sublist
    | some n => simp only [takeOpt]; exact (List.take_sublist _ _).trans List.filter_sublist
  · intro e he
    have : e ∈ es.filter (nip01MatchB f ·) := by
      cases h : remaining f 0 with
      | none => simpa [takeOpt, h] using he
      | some n => rw [h] at he; exact List.mem_of_mem_take he
    exact (C02.nip01MatchB_iff f e).1 (List.mem_filter.1 this).2

/-! ### the index path's candidate test -/

/-- the per-tag function of `keysFromEvent` in closed form -/
def idxPairOf (t : List String) : Option (String × String) :=
  match t with
  | [] => none
  | n :: _ => if n.utf8ByteSize = 1 then some (n, tagValue t) else none

theorem idxPair_eq (t : List String) :
    (if Gen.idxSkipsEmptyTag t.length then none
     else if Gen.idxSkipsLongName (t.headD "").utf8ByteSize then none
     else some (t.headD "", if Gen.idxTagHasValue t.length then t.getD 1 "" else "")) = idxPairOf t := by
  match t with
  | [] => simp [Gen.idxSkipsEmptyTag, idxPairOf]
  | [n] =>
    by_cases h : n.utf8ByteSize = 1
    · simp [Gen.idxSkipsEmptyTag, Gen.idxSkipsLongName, Gen.idxTagHasValue, idxPairOf, tagValue, h]
    · have h' : ¬ ((n.utf8ByteSize : Int) = 1) := by omega
      simp [Gen.idxSkipsEmptyTag, Gen.idxSkipsLongName, Gen.idxTagHasValue, idxPairOf, tagValue, h, h']
  | n :: v :: r =>
    have h2 : ((r.length + 1 + 1 : Nat) : Int) ≥ 2 := by omega
    have h0 : ¬ ((r.length + 1 + 1 : Nat) : Int) = 0 := by omega
    by_cases h : n.utf8ByteSize = 1
    · simp [Gen.idxSkipsEmptyTag, Gen.idxSkipsLongName, Gen.idxTagHasValue, idxPairOf, tagValue, h]
      omega
    · have h' : ¬ ((n.utf8ByteSize : Int) = 1) := by omega
      simp [Gen.idxSkipsEmptyTag, Gen.idxSkipsLongName, Gen.idxTagHasValue, idxPairOf, tagValue, h, h']

theorem idxTagPairs_eq (e : Event) : idxTagPairs e = e.tags.filterMap idxPairOf := by
  unfold idxTagPairs
  congr 1
  funext t
  exact idxPair_eq t

/-- a tag pair is indexed exactly for the tags the matcher looks at, when the name is one byte long -/
theorem idxTagPairs_mem (e : Event) (k v : String) (hk : k.utf8ByteSize = 1) :
    (k, v) ∈ idxTagPairs e ↔ ∃ t ∈ e.tags, tagName? t = some k ∧ tagValue t = v := by
  rw [idxTagPairs_eq]
  simp only [List.mem_filterMap]
  constructor
  · rintro ⟨t, ht, h⟩
    refine ⟨t, ht, ?_⟩
    cases t with
    | nil => simp [idxPairOf] at h
    | cons n rest =>
      simp only [idxPairOf] at h
      by_cases hn : n.utf8ByteSize = 1
      · simp only [hn, if_true, Option.some.injEq, Prod.mk.injEq] at h
        exact ⟨by simp [tagName?, h.1], h.2⟩
      · simp [hn] at h
  · rintro ⟨t, ht, hn, hv⟩
    refine ⟨t, ht, ?_⟩
    cases t with
    | nil => cases hn
    | cons n rest =>
      simp only [tagName?, Option.some.injEq] at hn
      subst hn
      simp [idxPairOf, hk, hv]

theorem all_congr_on {α} (l : List α) (p q : α → Bool) (h : ∀ x ∈ l, p x = q x) : l.all p = l.all q := by
  induction l with
  | nil => rfl
  | cons a l ih =>
    simp only [List.all_cons, h a (by simp), ih (fun x hx => h x (List.mem_cons_of_mem _ hx))]

/-- **C03, index candidates = NIP-01 id / author / kind / tag conditions**: for a filter whose tag names are
    single-byte letters (what `ReqFilter.Valid` guarantees), an event is in the intersection computed from
    the secondary index exactly when it satisfies every present id, author, kind and `#x` condition. -/
theorem idxCandidate_eq (f : Filter) (e : Event)
    (hnames : ∀ l, f.tags = some l → ∀ c ∈ l, c.1.utf8ByteSize = 1) :
    idxCandidate f e = (listedOr true f.ids e.id && listedOr true f.authors e.pubkey &&
      listedOr true f.kinds e.kind && tagsOkB f.tags e) := by
  unfold idxCandidate tagsOkB
  congr 1
  cases ht : f.tags with
  | none => rfl
  | some l =>
    simp only
    apply all_congr_on l
    intro c hc
    have hk := hnames l ht c hc
    rw [Bool.eq_iff_iff]
    simp only [hasTagB, List.any_eq_true, List.contains_iff_mem]
    constructor
    · rintro ⟨v, hv, hm⟩
      obtain ⟨t, ht', hn, hval⟩ := (idxTagPairs_mem e c.1 v hk).1 hm
      exact ⟨t, ht', by simp [hn, hval, hv]⟩
    · rintro ⟨t, ht', h⟩
      simp only [Bool.and_eq_true, beq_iff_eq, List.contains_iff_mem] at h
      exact ⟨tagValue t, h.2, (idxTagPairs_mem e c.1 (tagValue t) hk).2 ⟨t, ht', h.1, rfl⟩⟩

/-- the top-k loop only ever returns candidates that pass since/until, and never more than it was given -/
theorem find_empty_store (cap : Int) (perm : List Event → List Event) (fs : List Filter) :
    Cache.find { cap := cap } perm fs = .ok [] := by
  simp [Cache.find, Gen.findEmpty]

end Moc.C03
