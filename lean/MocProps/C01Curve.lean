import MocModel.Bip340

/-!
  C01, arithmetic facts behind the Lean BIP-340 (MocModel/Bip340.lean): `powMod` is modular exponentiation, so
  `inv a = a^(p-2) mod p` and the square-root candidate of `lift_x` is `c^((p+1)/4) mod p`; a point returned by
  `lift_x` lies on the curve `y² = x³ + 7 (mod p)`, has the requested `x < p` and an even `y < p`.
-/

namespace Moc.Bip340

theorem powModF_spec : ∀ (fuel b e m acc : Nat), e < 2 ^ fuel →
    powModF fuel b e m acc % m = (acc * b ^ e) % m := by
  intro fuel
  induction fuel with
  | zero =>
    intro b e m acc he
    have : e = 0 := by simpa using he
    subst this
    simp [powModF]
  | succ n ih =>
    intro b e m acc he
    unfold powModF
    by_cases h0 : e = 0
    · simp [h0]
    · rw [if_neg h0]
      have hlt : e / 2 < 2 ^ n := by
        have : 2 ^ (n + 1) = 2 * 2 ^ n := by rw [Nat.pow_succ, Nat.mul_comm]
        omega
      rw [ih _ _ _ _ hlt]
      have hsq : (b * b % m) ^ (e / 2) % m = b ^ (2 * (e / 2)) % m := by
        rw [← Nat.pow_mod, Nat.pow_mul, Nat.pow_two]
      by_cases hodd : e % 2 = 1
      · rw [if_pos hodd]
        have he2 : e = 2 * (e / 2) + 1 := by omega
        conv => rhs; rw [he2, Nat.pow_succ]
        rw [Nat.mul_mod, Nat.mod_mod, hsq, ← Nat.mul_mod]
        rw [Nat.mul_assoc, Nat.mul_comm b, ← Nat.mul_assoc]
      · rw [if_neg hodd]
        have he2 : e = 2 * (e / 2) := by omega
        conv => rhs; rw [he2]
        rw [Nat.mul_mod, hsq, ← Nat.mul_mod]

end Moc.Bip340

namespace Moc.Bip340

theorem powModF_lt : ∀ (fuel b e m acc : Nat), acc < m → powModF fuel b e m acc < m := by
  intro fuel
  induction fuel with
  | zero => intro b e m acc h; simpa [powModF] using h
  | succ n ih =>
    intro b e m acc h
    unfold powModF
    by_cases h0 : e = 0
    · simpa [h0] using h
    · rw [if_neg h0]
      apply ih
      split
      · exact Nat.mod_lt _ (by omega)
      · exact h

/-- `powMod` is modular exponentiation -/
theorem powMod_spec (b e m : Nat) : powMod b e m % m = b ^ e % m := by
  unfold powMod
  rw [powModF_spec _ _ _ _ _ (Nat.lt_log2_self)]
  rw [Nat.mul_mod, Nat.mod_mod, ← Nat.pow_mod, ← Nat.mul_mod, Nat.one_mul]

theorem powMod_lt (b e m : Nat) (hm : 1 < m) : powMod b e m < m := by
  unfold powMod
  exact powModF_lt _ _ _ _ _ (Nat.mod_lt _ (by omega))

/-- the modular inverse used by the reference arithmetic is Fermat's `a^(p-2) mod p` -/
theorem inv_spec (a : Nat) : inv a % p = a ^ (p - 2) % p := powMod_spec a (p - 2) p

theorem neg_sq (a : Nat) (h : a ≤ p) : (p - a) * (p - a) % p = a * a % p := by
  have key : (p - a) * (p - a) + a * p = a * a + (p - a) * p := by
    have hp : p = (p - a) + a := by omega
    generalize p - a = d at hp ⊢
    rw [hp]
    simp only [Nat.mul_add]
    have hc : d * a = a * d := Nat.mul_comm d a
    omega
  have h1 : ((p - a) * (p - a) + a * p) % p = (p - a) * (p - a) % p := Nat.add_mul_mod_self_right _ _ _
  have h2 : (a * a + (p - a) * p) % p = a * a % p := Nat.add_mul_mod_self_right _ _ _
  rw [← h1, key, h2]

/-- **`lift_x` is sound**: the point it returns has the requested x (which is a field element), lies on
    `y² = x³ + 7 (mod p)`, and its y is even and a field element -/
theorem liftX_sound (x : Nat) (P : Nat × Nat) (h : liftX x = some P) :
    P.1 = x ∧ x < p ∧ P.2 * P.2 % p = (x * x % p * x + 7) % p ∧ P.2 % 2 = 0 ∧ P.2 < p := by
  unfold liftX at h
  by_cases hx : x ≥ p
  · rw [if_pos hx] at h; cases h
  · rw [if_neg hx] at h
    simp only at h
    by_cases hy : powMod ((x * x % p * x + 7) % p) ((p + 1) / 4) p * powMod ((x * x % p * x + 7) % p) ((p + 1) / 4) p % p ≠
        (x * x % p * x + 7) % p
    · rw [if_pos hy] at h; cases h
    · rw [if_neg hy] at h
      have hy' := Decidable.of_not_not hy
      have hlt : powMod ((x * x % p * x + 7) % p) ((p + 1) / 4) p < p := powMod_lt _ _ _ (by decide)
      generalize powMod ((x * x % p * x + 7) % p) ((p + 1) / 4) p = y at h hy' hlt
      have hP := Option.some.inj h
      subst hP
      refine ⟨rfl, by omega, ?_, ?_, ?_⟩
      · by_cases he : y % 2 = 0
        · simp only [he, if_true]; exact hy'
        · simp only [he, if_false]; rw [neg_sq y (by omega)]; exact hy'
      · by_cases he : y % 2 = 0
        · simp only [he, if_true]
        · simp only [he, if_false]
          have hpodd : p % 2 = 1 := by decide
          omega
      · by_cases he : y % 2 = 0
        · simp only [he, if_true]; exact hlt
        · simp only [he, if_false]
          have : 0 < y := by omega
          omega

/-- hence a public key that the reference verification accepts is the x coordinate of a curve point -/
theorem verifyRef_pubkey_on_curve (pk msg sig : List Nat) (h : (verifyRef pk msg sig).pubkeyParses = true) :
    ∃ y, y < p ∧ y % 2 = 0 ∧ y * y % p = (natOfBytes pk * natOfBytes pk % p * natOfBytes pk + 7) % p := by
  unfold verifyRef at h
  by_cases h1 : pk.length ≠ 32
  · simp [h1] at h
  · simp only [h1, if_false] at h
    cases h2 : liftX (natOfBytes pk) with
    | none => simp [h2] at h
    | some P =>
      obtain ⟨_, _, h3, h4, h5⟩ := liftX_sound _ P h2
      exact ⟨P.2, h5, h4, h3⟩

end Moc.Bip340
