/-
  C12, "the connection stays usable": the WebSocket write loop must always come back to its `select` without
  waiting for anything the READ loop has to provide — the read loop hands every rejection (NOTICE) to the write
  loop, so a write loop that waits for a pong (which only the read loop can read) deadlocks with it until the send
  timeout and the connection is dropped (defect D16, repaired in e4f9bc8).

  `Gen.writeLoopSyncCalls` is regenerated from relay.go on every run: the functions `serveWriteLoop` calls in its own
  goroutine (calls inside `go func() {…}()` are not listed).
-/
import MocModel.Gen.Sites

namespace Moc.C12

/-- calls that return only after the peer's next frame has been read -/
def waitsForPeer : List String := ["relay.sendPingWithTimeout", "conn.Ping", "conn.Read", "conn.Reader"]

/-- the write loop itself never waits for the peer: a ping's pong is awaited in a goroutine of its own -/
theorem write_loop_never_waits_for_peer : ∀ c ∈ Gen.writeLoopSyncCalls, c ∉ waitsForPeer := by decide

/-- the only socket operation of the write loop is the write bounded by the send timeout (C13 `write_deadline_applies`) -/
theorem write_loop_writes_bounded :
    "relay.sendMsgWithTimeout" ∈ Gen.writeLoopSyncCalls ∧ "conn.Write" ∉ Gen.writeLoopSyncCalls := by decide

/-- the read step hands messages over only through the cancellable helpers -/
theorem read_step_handovers :
    (Gen.readLoopSyncCalls.filter fun c => c == "sendServerMsgCtx" || c == "sendCtx" || c == "send <-" || c == "recv <-")
      = ["sendServerMsgCtx", "sendCtx"] := by decide

/-- the functions the gate calls, in source order: the frame is read, tested (`utf8.Valid`, `json.Valid`), parsed,
    validated, verified and handed over — nothing transforms the payload in between (a trimming, case-folding or
    re-encoding step would appear here) -/
theorem read_step_calls :
    Gen.readLoopSyncCalls.filter (fun c => c != "relay.logWarn" && c != "fmt.Errorf") =
      ["limiter.Wait", "conn.Read", "NewServerNoticeMsgf", "sendServerMsgCtx", "utf8.Valid", "json.Valid",
       "ParseClientMsg", "ValidClientMsg", "msg.Event.Verify", "NewServerNoticeMsg", "sendCtx"] := by decide

end Moc.C12
