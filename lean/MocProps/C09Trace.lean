/-
  C09, trace level: every EVENT gets exactly one OK over all histories and interleavings
  (`merged_event_exactly_once`).  The pending table of one event id is shown to be a run of the one-key machine of
  C09Table.lean on the projection of the session's trace, whose counting invariant gives the result.
-/
import MocModel.Merge
import MocProps.MergeLemmas
import MocProps.C09
import MocProps.C09Table
set_option linter.unusedSimpArgs false
set_option linter.unusedVariables false
namespace Moc.C09
open Moc

/-- the pending rows of event id `X` -/
def okRows (st : MergeSt) (X : String) : List (List (Option OKMsg)) := (alGet st.ok X).getD []

theorem contains_none_eq (r : List (Option OKMsg)) : r.contains none = !rowFull r := by
  induction r with
  | nil => rfl
  | cons x xs ih =>
    cases x with
    | none => simp [rowFull]
    | some v => simp [rowFull, List.contains_cons] at ih ⊢; exact ih

theorem joinOK_isSome (row : List OKMsg) (h : row ≠ []) : (joinOK row).isSome = true := by
  cases hf : row.find? (fun m => !m.accepted) with
  | none =>
    have hall : row.all (·.accepted) = true := by
      simp only [List.find?_eq_none] at hf
      simp only [List.all_eq_true]
      intro m hm; simpa using hf m hm
    rw [joinOK, joinPick_all_accept row hall]
    cases row with
    | nil => exact absurd rfl h
    | cons m ms => rfl
  | some r =>
    obtain ⟨rs, hp, _, _⟩ := joinPick_some_reject row r hf
    simp [joinOK, hp, joinOf]

theorem full_filterMap_ne_nil (r : List (Option OKMsg)) (hf : rowFull r = true) (hl : 0 < r.length) :
    r.filterMap id ≠ [] := by
  cases r with
  | nil => simp at hl
  | cons x xs =>
    cases x with
    | none => simp [rowFull] at hf
    | some v => simp

/-- `handleSendOKMsg` on the table of its event id is one `reply` step of that table -/
theorem sendOK_tbl (st : MergeSt) (i : Nat) (m : OKMsg) :
    okRows (sendOK st i m).1 m.id = (tblStep st.n (okRows st m.id) (.reply i m)).1 ∧
    (sendOK st i m).2 = ((tblStep st.n (okRows st m.id) (.reply i m)).2).bind joinOK ∧
    (sendOK st i m).1.n = st.n := by
  have hfree : (Gen.okSetMsgFree) = (fun b : Bool => b) := rfl
  unfold sendOK
  simp only [okRows, tblStep, fill, hfree, Gen.okReadyNone, Gen.okReadyExpr, Gen.okSendNotReady, popRow,
    Gen.okClearKeep, contains_none_eq]
  cases hr : (alGet st.ok m.id).getD [] with
  | nil => simp [fillFirst, hr]
  | cons r0 rest0 =>
    cases hfr : fillFirst (fun b => b) (r0 :: rest0) i m with
    | nil =>
      have := fill_length (r0 :: rest0) i m
      simp [fill, hfr] at this
    | cons r rest =>
      have hlen : ¬ (((rest.length : Int) + 1) = 0) := by omega
      by_cases hrf : rowFull r = true
      · cases rest with
        | nil => simp [hrf, alGet_alErase_self]
        | cons r1 rest1 =>
          have h2 : ((rest1.length : Int) + 1 + 1 > 1) := by omega
          have h3 : ¬ ((rest1.length : Int) + 1 + 1 = 0) := by omega
          simp [hrf, alGet_alSet_self, h2, h3]
      · simp [hrf, alGet_alSet_self]

/-! ### projecting a session's trace onto one event id -/

def projOK (X : String) : List MStep → List (TOp OKMsg)
  | [] => []
  | .client m :: tr =>
    (match m with
     | .event e => if e.id = X then [TOp.req] else []
     | _ => []) ++ projOK X tr
  | .child i msg :: tr =>
    (match msg with
     | .ok id acc pfx t => if id = X then [TOp.reply i { id := id, accepted := acc, text := pfx ++ t }] else []
     | _ => []) ++ projOK X tr

/-- how many times the client received something when a child's OK for id `X` arrived -/
def okEmits (X : String) : MergeSt → List MStep → Nat
  | _, [] => 0
  | st, .client m :: tr => okEmits X (st.client m) tr
  | st, .child i msg :: tr =>
    (match msg with
     | .ok id _ _ _ => if id = X then (outOf (st.child i msg).2).length else 0
     | _ => 0) + okEmits X (st.child i msg).1 tr

theorem allEose_okn (st : MergeSt) (sub : String) : (allEose st sub).1.ok = st.ok ∧ (allEose st sub).1.n = st.n := by
  unfold allEose
  split
  · exact ⟨rfl, rfl⟩
  · split
    · exact ⟨rfl, rfl⟩
    · split <;> exact ⟨rfl, rfl⟩

theorem setEose_okn (st : MergeSt) (sub : String) (i : Nat) : (setEose st sub i).ok = st.ok ∧ (setEose st sub i).n = st.n := by
  unfold setEose
  split
  · exact ⟨rfl, rfl⟩
  · split <;> exact ⟨rfl, rfl⟩

theorem sendEose_okn (st : MergeSt) (i : Nat) (sub : String) :
    (sendEose st i sub).1.ok = st.ok ∧ (sendEose st i sub).1.n = st.n := by
  have a := allEose_okn st sub
  have b := setEose_okn (allEose st sub).1 sub i
  have c := allEose_okn (setEose (allEose st sub).1 sub i) sub
  unfold sendEose
  split
  · exact a
  · split <;> exact ⟨by rw [c.1, b.1, a.1], by rw [c.2, b.2, a.2]⟩

theorem sendable_okn (st : MergeSt) (i : Nat) (sub : String) (e : Event) :
    (sendableEvent st i sub e).1.ok = st.ok ∧ (sendableEvent st i sub e).1.n = st.n := by
  have a := allEose_okn st sub
  unfold sendableEvent
  split
  · exact a
  · split
    · exact a
    · split
      · exact a
      · exact a

theorem sendCount_okn (st : MergeSt) (i : Nat) (sub : String) (n : Nat) (ap : Option Bool) :
    (sendCount st i sub n ap).1.ok = st.ok ∧ (sendCount st i sub n ap).1.n = st.n := by
  unfold sendCount
  simp only []
  split <;> (try split) <;> exact ⟨rfl, rfl⟩

theorem sendOK_other (st : MergeSt) (i : Nat) (m : OKMsg) (X : String) (h : X ≠ m.id) :
    okRows (sendOK st i m).1 X = okRows st X := by
  simp only [okRows, sendOK_table st i m X h]

/-- **the table of id `X` along a session's trace is the run of the one-key machine on the trace's projection**,
    and the client's replies for `X` are that machine's outputs -/
theorem tblStep_out_ne_nil (n : Nat) (hn : 0 < n) (rows : List (List (Option OKMsg))) (i : Nat) (m : OKMsg)
    (hinv : Inv n rows) (row : List OKMsg) (h : (tblStep n rows (.reply i m)).2 = some row) : row ≠ [] := by
  simp only [tblStep] at h
  have hlens := fill_lens n rows i m hinv.len
  cases hfr : fill rows i m with
  | nil => simp [hfr] at h
  | cons r rest =>
    rw [hfr] at hlens
    simp only [hfr] at h
    by_cases hrf : rowFull r = true
    · simp only [hrf, if_true, Option.some.injEq] at h
      rw [← h]
      exact full_filterMap_ne_nil r hrf (by rw [hlens r (by simp)]; exact hn)
    · simp [hrf] at h

theorem okRows_run (X : String) (n : Nat) (hn : 0 < n) (tr : List MStep) :
    ∀ st : MergeSt, st.n = n → Inv n (okRows st X) → (∀ i m, MStep.child i m ∈ tr → i < n) →
      okRows (runMerge st tr).1 X = (runTbl n (okRows st X) (projOK X tr)).1 ∧
      okEmits X st tr = (runTbl n (okRows st X) (projOK X tr)).2.length := by
  induction tr with
  | nil => intro st _ _ _; exact ⟨rfl, rfl⟩
  | cons s tr ih =>
    intro st hst hinv hidx
    have hidx' : ∀ i m, MStep.child i m ∈ tr → i < n := fun i m h => hidx i m (List.mem_cons_of_mem _ h)
    cases s with
    | client m =>
      simp only [runMerge, okEmits, projOK]
      cases m with
      | event e =>
        by_cases he : e.id = X
        · subst he
          have hrows : okRows (st.client (.event e)) e.id = addRow (okRows st e.id) n := by
            simp [okRows, MergeSt.client, alGet_alSet_self, hst]
          have hinv' : Inv n (okRows (st.client (.event e)) e.id) := by rw [hrows]; exact inv_addRow n hn _ hinv
          obtain ⟨h1, h2⟩ := ih (st.client (.event e)) hst hinv' hidx'
          simp only [if_true, List.cons_append, List.nil_append, runTbl, tblStep, Option.toList_none]
          rw [hrows] at h1 h2
          exact ⟨h1, h2⟩
        · have hrows : okRows (st.client (.event e)) X = okRows st X := by
            simp [okRows, MergeSt.client, alGet_alSet_ne _ _ _ _ (fun h => he h.symm)]
          obtain ⟨h1, h2⟩ := ih (st.client (.event e)) hst (by rw [hrows]; exact hinv) hidx'
          simp only [he, if_false, List.nil_append]
          rw [hrows] at h1 h2
          exact ⟨h1, h2⟩
      | req sub fs =>
        have := ih (st.client (.req sub fs)) hst hinv hidx'
        simpa [okRows, MergeSt.client] using this
      | close sub =>
        have := ih (st.client (.close sub)) hst hinv hidx'
        simpa [okRows, MergeSt.client] using this
      | auth e =>
        have := ih (st.client (.auth e)) hst hinv hidx'
        simpa [okRows, MergeSt.client] using this
      | count sub fs =>
        have := ih (st.client (.count sub fs)) hst hinv hidx'
        simpa [okRows, MergeSt.client] using this
    | child i msg =>
      simp only [runMerge, okEmits, projOK]
      cases msg with
      | ok id acc pfx t =>
        by_cases hid : id = X
        · subst hid
          obtain ⟨t1, t2, t3⟩ := sendOK_tbl st i { id := id, accepted := acc, text := pfx ++ t }
          simp only [] at t1 t2 t3
          rw [hst] at t1 t2
          have hi : i < n := hidx i (.ok id acc pfx t) (by simp)
          have hinv' := inv_reply n (okRows st id) i { id := id, accepted := acc, text := pfx ++ t } hi hinv
          have hn' : (st.child i (.ok id acc pfx t)).1.n = n := by simp only [MergeSt.child]; rw [t3, hst]
          have hrows : okRows (st.child i (.ok id acc pfx t)).1 id =
              (tblStep n (okRows st id) (.reply i { id := id, accepted := acc, text := pfx ++ t })).1 := by
            simp only [MergeSt.child]; exact t1
          obtain ⟨h1, h2⟩ := ih (st.child i (.ok id acc pfx t)).1 hn' (by rw [hrows]; exact hinv') hidx'
          rw [hrows] at h1 h2
          simp only [if_true, List.cons_append, List.nil_append, runTbl, List.length_append]
          refine ⟨h1, ?_⟩
          rw [h2]
          congr 1
          simp only [MergeSt.child, t2]
          cases ho : (tblStep n (okRows st id) (.reply i { id := id, accepted := acc, text := pfx ++ t })).2 with
          | none => rfl
          | some row =>
            have hne := tblStep_out_ne_nil n hn _ i _ hinv row ho
            have hs := joinOK_isSome row hne
            cases hj : joinOK row with
            | none => rw [hj] at hs; cases hs
            | some o => simp [hj, outOf]
        · have hrows : okRows (st.child i (.ok id acc pfx t)).1 X = okRows st X := by
            simp only [MergeSt.child]
            exact sendOK_other st i _ X (fun h => hid h.symm)
          have hn' : (st.child i (.ok id acc pfx t)).1.n = n := by
            simp only [MergeSt.child]
            rw [(sendOK_tbl st i { id := id, accepted := acc, text := pfx ++ t }).2.2, hst]
          have := ih (st.child i (.ok id acc pfx t)).1 hn' (by rw [hrows]; exact hinv) hidx'
          rw [hrows] at this
          simpa [hid] using this
      | eose sub =>
        have hk := sendEose_okn st i sub
        have hrows : okRows (st.child i (.eose sub)).1 X = okRows st X := by simp [okRows, MergeSt.child, hk.1]
        have := ih (st.child i (.eose sub)).1 (by simp [MergeSt.child, hk.2, hst]) (by rw [hrows]; exact hinv) hidx'
        rw [hrows] at this
        simpa using this
      | event sub e =>
        have hk := sendable_okn st i sub e
        have hrows : okRows (st.child i (.event sub e)).1 X = okRows st X := by simp [okRows, MergeSt.child, hk.1]
        have := ih (st.child i (.event sub e)).1 (by simp [MergeSt.child, hk.2, hst]) (by rw [hrows]; exact hinv) hidx'
        rw [hrows] at this
        simpa using this
      | count sub c ap =>
        have hk := sendCount_okn st i sub c ap
        have hrows : okRows (st.child i (.count sub c ap)).1 X = okRows st X := by simp [okRows, MergeSt.child, hk.1]
        have := ih (st.child i (.count sub c ap)).1 (by simp [MergeSt.child, hk.2, hst]) (by rw [hrows]; exact hinv) hidx'
        rw [hrows] at this
        simpa using this
      | notice m => have := ih st hst hinv hidx'; simpa [MergeSt.child] using this
      | closed a b c => have := ih st hst hinv hidx'; simpa [MergeSt.child] using this
      | auth c => have := ih st hst hinv hidx'; simpa [MergeSt.child] using this

/-- **C09, every EVENT gets exactly one OK — all histories, all interleavings.**  In a fresh session over `n ≥ 1`
    children, for every event id `X` and every trace in which children answer an EVENT with id `X` only after the
    client submitted it (several in flight and repeated ids allowed): the client never receives more replies for
    `X` than it submitted EVENTs with that id, nor more than any child has answered; and once every child has
    answered each of them, it has received exactly one reply per EVENT and nothing is left pending.  (What each
    reply says: `joinOK_verdict`, `joinOK_reason`, `sendOK_out`.) -/
theorem merged_event_exactly_once (n : Nat) (hn : 0 < n) (X : String) (tr : List MStep)
    (hidx : ∀ i m, MStep.child i m ∈ tr → i < n) (hc : Causal n 0 (fun _ => 0) (projOK X tr)) :
    okEmits X { n := n } tr ≤ reqs (projOK X tr) ∧
    (∀ j, j < n → okEmits X { n := n } tr ≤ replies j (projOK X tr)) ∧
    ((∀ j, j < n → replies j (projOK X tr) = reqs (projOK X tr)) →
      okEmits X { n := n } tr = reqs (projOK X tr) ∧ okRows (runMerge { n := n } tr).1 X = []) := by
  have h0 : okRows ({ n := n } : MergeSt) X = [] := rfl
  obtain ⟨h1, h2⟩ := okRows_run X n hn tr { n := n } rfl (by rw [h0]; exact inv_nil n) hidx
  rw [h0] at h1 h2
  obtain ⟨a, b, c⟩ := replies_exactly_once n hn (projOK X tr) hc
  rw [h1, h2]
  exact ⟨a, b, c⟩

/-! non-vacuity: the same id submitted twice, two children, replies interleaved -/
example : Causal 2 0 (fun _ => 0) (projOK "x" exTrace) := by
  simp [exTrace, projOK, Causal, exEv]
example : okEmits "x" { n := 2 } exTrace = 2 ∧ reqs (projOK "x" exTrace) = 2 := by decide

end Moc.C09
