import MocProps.C12
import MocProps.C11
import MocProps.C01Sig

/-!
  C12 end to end: the gate with the model's own parser, validator and verifier plugged in (`gateTree`), i.e. with
  nothing handed in but the frame's text and its JSON tree.  The handler receives a message exactly when the frame
  parses to it (C10's decoder), it meets the NIP-01 constraints (C11's `validClientMsg_iff`) and — for an EVENT — its
  id is the SHA-256 of its serialization and its signature passes the library's check (C01's `verifyFull_true_iff`).
  The correspondence stream `ws` runs this very function against the relay over a real WebSocket.
-/

set_option linter.unusedSimpArgs false
set_option linter.unusedVariables false

namespace Moc.C12
open Moc Moc.Wire

/-- the verdict `serveRead` obtains from `Event.Verify` for a parsed message (only EVENTs are verified) -/
def verOf : DecE ClientMsg → VerifyRes
  | .ok (.event e) => verifyFull e
  | _ => .error

/-- `serveRead` on a text frame holding valid UTF-8 JSON with tree `t` -/
def gateTree (payload : String) (t : JT) : GateOut :=
  gate true true true payload (parseClientMsg payload t) (verOf (parseClientMsg payload t))

/-- **C12, end to end**: a text frame reaches the handler as `m` exactly when it parses to `m`, `m` meets the NIP-01
    constraints, and — if it is an EVENT — it is authentic. -/
theorem gate_end_to_end (payload : String) (t : JT) (m : ClientMsg) :
    gateTree payload t = .forward m ↔
      parseClientMsg payload t = .ok m ∧ ValidSpec.MsgOk m ∧ (∀ e, m = .event e → verifyFull e = .ok true) := by
  unfold gateTree
  rw [gate_forwards_iff]
  unfold Acceptable
  constructor
  · rintro ⟨_, _, _, hp, hv, he⟩
    refine ⟨hp, (C11.validClientMsg_iff m).1 hv, ?_⟩
    intro e hm
    have := he e hm
    rw [hp, hm] at this
    exact this
  · rintro ⟨hp, hok, he⟩
    refine ⟨rfl, rfl, rfl, hp, (C11.validClientMsg_iff m).2 hok, ?_⟩
    intro e hm
    rw [hp, hm]
    exact he e hm

/-- and for an EVENT that reaches the handler: the id is the hash of the canonical serialization and the signature
    passes — spelled out with C01's theorems -/
theorem forwarded_event_authentic (payload : String) (t : JT) (e : Event)
    (h : gateTree payload t = .forward (.event e)) :
    ∃ idBin pk sg, hexDecode e.id.toList = some idBin ∧
      hexDecode (Sha256.hexHash (String.ofList (serializeChars e))).toList = some idBin ∧
      hexDecode e.pubkey.toList = some pk ∧ hexDecode e.sig.toList = some sg ∧
      Bip340.verifyLib pk idBin sg = ⟨true, true, true⟩ :=
  (C01.verifyFull_true_iff e).1 (((gate_end_to_end payload t (.event e)).1 h).2.2 e rfl)

/-- every other text frame is answered with exactly one NOTICE and not forwarded -/
theorem gate_otherwise_one_notice (payload : String) (t : JT)
    (h : ¬ ∃ m, parseClientMsg payload t = .ok m ∧ ValidSpec.MsgOk m ∧ (∀ e, m = .event e → verifyFull e = .ok true)) :
    ∃ n, gateTree payload t = .notice n := by
  cases hg : gateTree payload t with
  | notice n => exact ⟨n, rfl⟩
  | forward m => exact absurd ⟨m, (gate_end_to_end payload t m).1 hg⟩ h

end Moc.C12
