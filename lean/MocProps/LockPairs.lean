/-
  Mutex discipline of the stateful middlewares (C18), the metrics middleware (C19), the shared store (C15) and the
  registry map (C07): EVERY acquisition `X.Lock()` / `X.RLock()` in handler.go, middleware/prometheus/prometheus.go,
  event_cache.go and data_structure.go is immediately followed by the matching `defer X.Unlock()` / `defer X.RUnlock()`,
  so each critical section extends to the end of its function (or switch case) on every path, panics included.
  The tables are regenerated from the source on every run (go2lean selector `lockpairs`).
-/
import MocModel.Gen.Locks

namespace Moc.LockPairs

def allPaired (t : List (String × String × Bool)) : Bool := t.all (fun r => r.2.2)

/-- the per-session quota state of the max-subscriptions middleware -/
theorem handler_locks_paired : allPaired Gen.lockPairsHandler = true ∧ Gen.lockPairsHandler.length = 2 := by decide

/-- the subscription gauge and the response-time bookkeeping of the metrics middleware -/
theorem prometheus_locks_paired : allPaired Gen.lockPairsProm = true ∧ Gen.lockPairsProm.length = 9 := by decide

theorem cache_locks_paired : allPaired Gen.lockPairsCache = true ∧ Gen.lockPairsCache.length = 3 := by decide

theorem safeMap_locks_paired : allPaired Gen.lockPairsSafeMap = true ∧ Gen.lockPairsSafeMap.length = 5 := by decide

/-- non-vacuity: an acquisition whose release is not deferred right away is flagged -/
example : allPaired [("T.f", "c.mu.Lock()", false)] = false := by decide

end Moc.LockPairs
