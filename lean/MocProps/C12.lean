/-
  C12 — WebSocket session: only valid authentic messages reach the handler.

  Model: `gate` (MocModel/Serialize.lean) = the chain of tests of `Relay.serveRead`, conditions and NOTICE
  texts regenerated from relay.go.  The WebSocket framing, the two goroutines of a session and the write
  loop are exercised over real connections (runtime-validated), not proved.
-/
import MocModel.Serialize

set_option linter.unusedSimpArgs false

namespace Moc.C12
open Moc

/-- the EVENT-only authenticity block and the forwarding call are the ones translated by `gate` -/
theorem gate_source_pinned :
    Gen.gateOnlyEvents = gateExpectedEventsOnly ∧ Gen.gateForward = "sendCtx(ctx, recv, msg)" := by
  exact ⟨rfl, rfl⟩

/-- a frame is acceptable: a text frame holding valid UTF-8 JSON that parses to a valid client message,
    which — if it is an EVENT — verifies as authentic -/
def Acceptable (isText utf8Valid jsonValid : Bool) (parsed : DecE ClientMsg) (ver : VerifyRes) (m : ClientMsg) : Prop :=
  isText = true ∧ utf8Valid = true ∧ jsonValid = true ∧ parsed = .ok m ∧ validClientMsg m = true ∧
  (∀ e, m = .event e → ver = .ok true)

/-- **C12, the gate forwards exactly the acceptable frames, unchanged.** -/
theorem gate_forwards_iff (isText utf8Valid jsonValid : Bool) (payload : String) (parsed : DecE ClientMsg)
    (ver : VerifyRes) (m : ClientMsg) :
    gate isText utf8Valid jsonValid payload parsed ver = .forward m ↔
      Acceptable isText utf8Valid jsonValid parsed ver m := by
  constructor
  · intro h
    unfold gate at h
    cases isText <;> cases utf8Valid <;> cases jsonValid <;>
      simp [Gen.gateNotText, Gen.gateNotJSON] at h
    cases parsed with
    | error err => simp at h
    | ok m' =>
      simp only [Gen.gateInvalid, Gen.gateBadSig] at h
      cases hv : validClientMsg m' with
      | false => simp [hv] at h
      | true =>
        simp only [hv, Bool.not_true, Bool.false_eq_true, if_false] at h
        cases m' with
        | event e =>
          cases ver with
          | error => simp at h
          | ok v =>
            cases v with
            | false => simp at h
            | true =>
              simp at h; subst h
              exact ⟨rfl, rfl, rfl, rfl, hv, fun _ _ => rfl⟩
        | req s fs => simp at h; subst h; exact ⟨rfl, rfl, rfl, rfl, hv, fun e he => by cases he⟩
        | close s => simp at h; subst h; exact ⟨rfl, rfl, rfl, rfl, hv, fun e he => by cases he⟩
        | auth e0 => simp at h; subst h; exact ⟨rfl, rfl, rfl, rfl, hv, fun e he => by cases he⟩
        | count s fs => simp at h; subst h; exact ⟨rfl, rfl, rfl, rfl, hv, fun e he => by cases he⟩
  · rintro ⟨rfl, rfl, rfl, rfl, hv, he⟩
    unfold gate
    simp only [Gen.gateNotText, Gen.gateNotJSON, Gen.gateInvalid, Gen.gateBadSig, hv]
    cases m with
    | event e => rw [he e rfl]; simp
    | req s fs => simp
    | close s => simp
    | auth e0 => simp
    | count s fs => simp

/-- **C12, every other frame gets exactly one rejection (a NOTICE) and is otherwise ignored**: the gate's
    outcome is a single value — either the forwarded message or one NOTICE, never both, never neither. -/
theorem gate_rejects_otherwise (isText utf8Valid jsonValid : Bool) (payload : String) (parsed : DecE ClientMsg)
    (ver : VerifyRes) (h : ∀ m, ¬ Acceptable isText utf8Valid jsonValid parsed ver m) :
    ∃ n, gate isText utf8Valid jsonValid payload parsed ver = .notice n := by
  cases hg : gate isText utf8Valid jsonValid payload parsed ver with
  | notice n => exact ⟨n, rfl⟩
  | forward m => exact absurd ((gate_forwards_iff _ _ _ payload _ _ m).1 hg) (h m)

/-- one inbound frame as the gate sees it -/
structure Frame where
  isText : Bool
  utf8Valid : Bool
  jsonValid : Bool
  payload : String
  parsed : DecE ClientMsg
  ver : VerifyRes

def gateFrame (f : Frame) : GateOut := gate f.isText f.utf8Valid f.jsonValid f.payload f.parsed f.ver

/-- the read loop handles frames one at a time: what reaches the handler, in order -/
def inbound (frames : List Frame) : List ClientMsg :=
  frames.filterMap fun f => match gateFrame f with | .forward m => some m | .notice _ => none

/-- what the gate writes back, in order -/
def rejections (frames : List Frame) : List String :=
  frames.filterMap fun f => match gateFrame f with | .forward _ => none | .notice n => some n

/-- **C12, a session**: the handler receives exactly the acceptable frames, once each and in the order sent;
    the number of rejections is the number of the other frames. -/
theorem session_inbound (frames : List Frame) :
    (inbound frames).length + (rejections frames).length = frames.length ∧
    ∀ m, m ∈ inbound frames ↔ ∃ f ∈ frames, Acceptable f.isText f.utf8Valid f.jsonValid f.parsed f.ver m := by
  constructor
  · induction frames with
    | nil => rfl
    | cons f fs ih =>
      simp only [inbound, rejections, List.filterMap_cons] at ih ⊢
      cases hg : gateFrame f <;> simp [hg] <;> omega
  · intro m
    simp only [inbound, List.mem_filterMap]
    constructor
    · rintro ⟨f, hf, h⟩
      cases hg : gateFrame f with
      | notice n => simp [hg] at h
      | forward m' =>
        simp only [hg, Option.some.injEq] at h
        subst h
        exact ⟨f, hf, (gate_forwards_iff _ _ _ f.payload _ _ _).1 hg⟩
    · rintro ⟨f, hf, h⟩
      exact ⟨f, hf, by rw [show gateFrame f = .forward m from (gate_forwards_iff _ _ _ f.payload _ _ _).2 h]⟩

/-- order is preserved: the inbound list of a concatenation is the concatenation of the inbound lists -/
theorem session_order (a b : List Frame) : inbound (a ++ b) = inbound a ++ inbound b := by
  simp [inbound, List.filterMap_append]

example : gate true true true "x" (.ok (.close "s")) .error = .forward (.close "s") := by decide
example : gate false true true "x" (.ok (.close "s")) .error = .notice "binary websocket message type is not allowed" := by decide

end Moc.C12
