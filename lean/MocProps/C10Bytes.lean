/-
  Byte-level facts about tag keys (helper lemmas for C10DED): the test of `ReqFilter.UnmarshalJSON` on the UTF-8
  bytes of a member name accepts exactly `#` followed by one ASCII letter.
-/
import MocProps.C10Filter

namespace Moc.C10
open Moc


/-- first byte and length of a character's UTF-8 encoding -/
theorem enc_cases (c : Char) :
    (c.toNat ≤ 127 ∧ String.utf8EncodeChar c = [UInt8.ofNat c.toNat]) ∨
    (127 < c.toNat ∧ 2 ≤ (String.utf8EncodeChar c).length ∧ 192 ≤ ((String.utf8EncodeChar c).getD 0 0).toNat) := by
  have hv : c.val.toNat = c.toNat := rfl
  by_cases h1 : c.toNat ≤ 127
  · left; exact ⟨h1, by simp [String.utf8EncodeChar, hv, h1]⟩
  · right
    refine ⟨by omega, ?_⟩
    by_cases h2 : c.toNat ≤ 2047
    · simp only [String.utf8EncodeChar, hv, h1, h2, if_true, if_false, List.length_cons, List.length_nil, List.getD_cons_zero, UInt8.toNat_ofNat']
      omega
    · by_cases h3 : c.toNat ≤ 65535
      · simp only [String.utf8EncodeChar, hv, h1, h2, h3, if_true, if_false, List.length_cons, List.length_nil, List.getD_cons_zero, UInt8.toNat_ofNat']
        omega
      · simp only [String.utf8EncodeChar, hv, h1, h2, h3, if_true, if_false, List.length_cons, List.length_nil, List.getD_cons_zero, UInt8.toNat_ofNat']
        omega

theorem utf8ByteSize_eq (k : String) : k.utf8ByteSize = (k.toList.flatMap String.utf8EncodeChar).length := by
  rw [← String.size_toByteArray, ← String.utf8Encode_toList]
  simp [List.utf8Encode]

theorem enc_length_pos (c : Char) : 1 ≤ (String.utf8EncodeChar c).length := by
  rcases enc_cases c with ⟨_, h⟩ | ⟨_, h, _⟩
  · simp [h]
  · omega

theorem flatMap_enc_length (l : List Char) : l.length ≤ (l.flatMap String.utf8EncodeChar).length := by
  induction l with
  | nil => simp
  | cons c cs ih => simp only [List.flatMap_cons, List.length_append, List.length_cons]; have := enc_length_pos c; omega

/-- what the byte-level test of `ReqFilter.UnmarshalJSON` accepts as a tag key: `#` followed by one ASCII letter -/
theorem isTagKey_inv (k : String) (h : isTagKey k = true) :
    ∃ ch, isLetterChar ch = true ∧ k = "#" ++ String.ofList [ch] := by
  simp only [isTagKey, Gen.filterKeyTag, Bool.and_eq_true, beq_iff_eq] at h
  obtain ⟨⟨hsz, hb0⟩, hb1⟩ := h
  simp only [Bool.or_eq_true, Bool.and_eq_true, decide_eq_true_eq] at hb1
  have hsz' : (k.toList.flatMap String.utf8EncodeChar).length = 2 := by
    rw [← utf8ByteSize_eq]; exact_mod_cast hsz
  simp only [strByte] at hb0 hb1
  cases hk : k.toList with
  | nil => rw [hk] at hsz'; simp at hsz'
  | cons c0 rest =>
    rw [hk] at hsz' hb0 hb1
    simp only [List.flatMap_cons, List.length_append] at hsz' hb0 hb1
    have hrest := flatMap_enc_length rest
    rcases enc_cases c0 with ⟨h0, e0⟩ | ⟨h0, l0, b0⟩
    · -- c0 is ASCII
      rw [e0] at hsz' hb0 hb1
      simp only [List.flatMap_cons, List.cons_append, List.nil_append, List.getD_cons_zero, List.getD_cons_succ,
        List.length_cons, List.length_nil, UInt8.toNat_ofNat'] at hsz' hb0 hb1
      have hc0 : c0 = '#' := by
        apply Char.ext
        apply UInt32.toNat_inj.1
        show c0.toNat = 35
        omega
      cases rest with
      | nil => simp at hsz'
      | cons c1 rest' =>
        simp only [List.flatMap_cons, List.length_append] at hsz' hb1
        have hr' := flatMap_enc_length rest'
        have hp1 := enc_length_pos c1
        have hr'' : rest' = [] := by
          cases rest' with
          | nil => rfl
          | cons x xs => simp only [List.length_cons] at hr'; omega
        subst hr''
        rcases enc_cases c1 with ⟨h1, e1⟩ | ⟨h1, l1, _⟩
        · rw [e1] at hb1
          simp only [List.flatMap_nil, List.append_nil, List.getD_cons_zero, UInt8.toNat_ofNat'] at hb1
          refine ⟨c1, ?_, ?_⟩
          · simp only [isLetterChar, Bool.or_eq_true, Bool.and_eq_true, decide_eq_true_eq]
            have ha : 'a'.toNat = 97 := by decide
            have hz : 'z'.toNat = 122 := by decide
            have hA : 'A'.toNat = 65 := by decide
            have hZ : 'Z'.toNat = 90 := by decide
            rcases hb1 with ⟨x, y⟩ | ⟨x, y⟩
            · right; exact ⟨show 'A'.toNat ≤ c1.toNat by omega, show c1.toNat ≤ 'Z'.toNat by omega⟩
            · left; exact ⟨show 'a'.toNat ≤ c1.toNat by omega, show c1.toNat ≤ 'z'.toNat by omega⟩
          · rw [← String.ofList_toList (s := k), hk, hc0]
            rw [show ['#', c1] = ['#'] ++ [c1] from rfl, String.ofList_append]
        · simp only [List.flatMap_nil, List.length_nil] at hsz'; omega
    · -- a multi-byte first character starts with a byte ≥ 192
      exfalso
      have : ((String.utf8EncodeChar c0 ++ rest.flatMap String.utf8EncodeChar).getD 0 0) = (String.utf8EncodeChar c0).getD 0 0 := by
        cases he : String.utf8EncodeChar c0 with
        | nil => rw [he] at l0; simp at l0
        | cons b bs => simp
      rw [this] at hb0
      omega

theorem nodup_eraseDups_aux (n : Nat) : ∀ (l : List String), l.length ≤ n → l.eraseDups.Nodup := by
  induction n with
  | zero => intro l h; have : l = [] := List.length_eq_zero_iff.1 (by omega); subst this; simp
  | succ n ih =>
    intro l h
    cases l with
    | nil => simp
    | cons a as =>
      rw [List.eraseDups_cons, List.nodup_cons]
      refine ⟨?_, ih _ ?_⟩
      · intro hm
        have := (List.mem_filter.1 (List.mem_eraseDups.1 hm)).2
        simp at this
      · have := List.length_filter_le (fun b => !b == a) as
        simp only [List.length_cons] at h
        omega

theorem nodup_eraseDups (l : List String) : l.eraseDups.Nodup := nodup_eraseDups_aux l.length l (Nat.le_refl _)

end Moc.C10
