/-
  C16 — Storage handlers reply completely and in order; dump/restore is lossless.

  Model: MocModel/Handlers.lean (`cacheReply`, `serveCache`, `dump`, `restore`).
  Proved here: the request/reply loop answers message by message in request order, every reply list has
  the shape the statement demands, the OK verdict is the store's "reported as new" flag.
  Dump/Restore losslessness is currently runtime-validated (every generated history is dumped, restored
  into an empty handler and queried on both sides); see DESIGN.md §5 C16.
-/
import MocModel.Spec.Handlers
import MocProps.C04

set_option linter.unusedSimpArgs false

namespace Moc.C16
open Moc

/-- the reply constructors of handler.go / handler/sqlite/handler.go are the ones the model translates -/
theorem handlers_source_pinned : handlersActualSource = handlersExpectedSource := by rfl

/-- **C16, request order**: serving a sequence is serving its first part, then — from the state reached —
    its second part; replies are grouped per request in request order. -/
theorem serve_append (c : Cache) (ms1 ms2 : List ClientMsg) (r1 : List (List ServerMsg)) (c1 : Cache)
    (h1 : serveCache c ms1 = (c1, .ok r1)) :
    serveCache c (ms1 ++ ms2) =
      match serveCache c1 ms2 with
      | (c2, .ok r2) => (c2, .ok (r1 ++ r2))
      | (c2, .panic) => (c2, .panic) := by
  induction ms1 generalizing c r1 with
  | nil =>
    simp only [serveCache] at h1
    cases h1
    simp only [List.nil_append]
    cases h : serveCache c1 ms2 with
    | mk c2 r => cases r <;> rfl
  | cons m ms ih =>
    simp only [serveCache, List.cons_append] at h1 ⊢
    cases hm : cacheReply c m with
    | mk c' r =>
      cases r with
      | panic => simp [hm] at h1
      | ok rr =>
        simp only [hm] at h1 ⊢
        cases hs : serveCache c' ms with
        | mk c'' rs =>
          cases rs with
          | panic => simp [hs] at h1
          | ok rs' =>
            simp only [hs] at h1
            cases h1
            rw [ih c' rs' hs]
            cases h2 : serveCache c1 ms2 with
            | mk c2 r2 => cases r2 <;> rfl

/-- one reply list per request -/
theorem serve_length (ms : List ClientMsg) : ∀ (c c' : Cache) (rs : List (List ServerMsg)),
    serveCache c ms = (c', .ok rs) → rs.length = ms.length := by
  induction ms with
  | nil => intro c c' rs h; simp only [serveCache] at h; cases h; rfl
  | cons m ms ih =>
    intro c c' rs h
    simp only [serveCache] at h
    cases hm : cacheReply c m with
    | mk c1 r =>
      cases r with
      | panic => simp [hm] at h
      | ok rr =>
        simp only [hm] at h
        cases hs : serveCache c1 ms with
        | mk c2 rs' =>
          cases rs' with
          | panic => simp [hs] at h
          | ok rs'' =>
            simp only [hs] at h
            cases h
            simp [ih _ _ rs'' hs]

/-- **C16, EVENT**: exactly one OK carrying the event's id, accepting iff the store reports the event as
    new, otherwise rejecting with the `duplicate:` prefix. -/
theorem event_reply (c : Cache) (e : Event) :
    (cacheReply c (.event e)).1 = (c.add e).1 ∧
    (((c.add e).2 = true ∧ (cacheReply c (.event e)).2 = .ok [.ok e.id true "" ""]) ∨
     ((c.add e).2 = false ∧ ∃ txt, (cacheReply c (.event e)).2 = .ok [.ok e.id false "duplicate: " txt])) := by
  simp only [cacheReply, Gen.cacheAcceptIf]
  cases h : (c.add e).2 with
  | true => simp [h]
  | false => refine ⟨by simp [h], Or.inr ⟨rfl, Gen.cacheRejectMsg, by simp [h]; rfl⟩⟩

/-- **C16, REQ / COUNT / CLOSE / AUTH**: the stored matches labelled with the subscription id followed by
    exactly one EOSE; one COUNT; nothing; nothing — and the store is unchanged. -/
theorem other_replies (c : Cache) :
    (∀ sub fs evs, c.find id fs = .ok evs →
      cacheReply c (.req sub fs) = (c, .ok (evs.map (fun e => ServerMsg.event sub e) ++ [.eose sub]))) ∧
    (∀ sub fs, cacheReply c (.count sub fs) = (c, .ok [.count sub 0 none])) ∧
    (∀ sub, cacheReply c (.close sub) = (c, .ok [])) ∧
    (∀ e, cacheReply c (.auth e) = (c, .ok [])) := by
  refine ⟨?_, fun _ _ => rfl, fun _ => rfl, fun _ => rfl⟩
  intro sub fs evs h
  simp [cacheReply, h]

/-- **C16, shape**: whatever the store content and the message, the replies satisfy the statement's
    shape (`replyShapeOk` is the executable form used as the monitor on the real handlers). -/
theorem reply_shape (c : Cache) (m : ClientMsg) (r : List ServerMsg) (h : (cacheReply c m).2 = .ok r) :
    HandlerSpec.replyShapeOk m r none = none := by
  cases m with
  | event e =>
    rcases (event_reply c e).2 with ⟨_, h2⟩ | ⟨_, txt, h2⟩ <;> rw [h2] at h <;> cases h <;>
      simp [HandlerSpec.replyShapeOk]
  | req sub fs =>
    simp only [cacheReply] at h
    cases hf : c.find id fs with
    | panic => simp [hf] at h
    | ok evs =>
      simp only [hf] at h
      cases h
      simp [HandlerSpec.replyShapeOk, List.reverse_append, List.all_eq_true]
  | close sub => simp only [cacheReply] at h; cases h; rfl
  | auth e => simp only [cacheReply] at h; cases h; rfl
  | count sub fs => simp only [cacheReply] at h; cases h; simp [HandlerSpec.replyShapeOk]

/-- **C16, restore** adds the dumped events in dump order: for every dump, capacity and invariant holds
    on the restored store (capacity, one event per key, no ephemeral event). -/
theorem restore_inv (cap : Int) (hcap : 0 ≤ cap) (evs : List Event) :
    C04.Inv1 (restore { cap := cap } evs) :=
  (C04.retention_all_histories cap hcap evs).1

end Moc.C16
