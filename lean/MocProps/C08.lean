/-
  C08 — merged REQ: one EOSE after all children, ordered de-duplicated stream before.

  Model: `MergeSt.client`, `sendEose`, `sendableEvent` (MocModel/Merge.lean) = `handleRecvReqMsg`,
  `handleRecvCloseMsg`, `handleSendEOSEMsg`, `handleSendEventMsg` and `mergeHandlerSessionReqState` of
  handler.go, every test regenerated from the source.  A session's state is passed through 1-slot channels,
  so each of these runs atomically and a session is a sequence of atomic steps (`MStep`); the theorems below
  hold for every such sequence, i.e. for every interleaving of the children with each other and the client.

  Part 1 — the merged EOSE: forwarded exactly when the last child's EOSE arrives, never for a closed or
           unknown subscription, at most once per REQ over any trace (`eose_at_most_once`).
  Part 2 — the event stream: after the EOSE (state gone) everything is forwarded unchanged; before it a
           forwarded event is from a child that has not sent EOSE, is not newer than the last one looked at,
           has an id not yet seen at its timestamp, found the limit not exhausted and matches the filters.
-/
import MocModel.Merge
import MocModel.Spec.Nip01
import MocProps.MergeLemmas
import MocProps.C02
import MocProps.C09

set_option linter.unusedSimpArgs false
set_option linter.unusedVariables false

namespace Moc.C08
open Moc

/-! ## Part 1: EOSE -/

theorem allEose_absent (st : MergeSt) (sub : String) (h : alGet st.req sub = none) : allEose st sub = (st, true) := by
  simp [allEose, h, Gen.reqAllEoseAbsent]

theorem allEose_present (st : MergeSt) (sub : String) (r : ReqSub) (h : alGet st.req sub = some r) :
    allEose st sub =
      if r.eose.contains false then (st, false) else ({ st with req := alErase st.req sub }, true) := by
  simp only [allEose, h, Gen.reqAllEoseAbsent, Option.isSome_some, Bool.not_true, Bool.false_eq_true, if_false]
  cases r.eose.contains false <;> simp

/-- a subscription without state (never requested, closed, or already past its merged EOSE): a child's EOSE
    is swallowed and nothing changes -/
theorem eose_without_state (st : MergeSt) (i : Nat) (sub : String) (h : alGet st.req sub = none) :
    sendEose st i sub = (st, none) := by
  simp [sendEose, allEose_absent st sub h, Gen.eoseAlready]

/-- **C08, EOSE gating.**  With the subscription open (some child still owes its EOSE), child `i`'s EOSE is
    forwarded — as `EOSE sub`, same subscription id — exactly when it was the last one missing, and the state
    of the subscription is dropped at that moment; otherwise only flag `i` is set. -/
theorem eose_with_state (st : MergeSt) (i : Nat) (sub : String) (r : ReqSub) (h : alGet st.req sub = some r)
    (hopen : r.eose.contains false = true) :
    sendEose st i sub =
      if (r.eose.set i true).contains false
      then ({ st with req := alSet st.req sub { r with eose := r.eose.set i true } }, none)
      else ({ st with req := alErase (alSet st.req sub { r with eose := r.eose.set i true }) sub }, some (.eose sub)) := by
  have hne : r.eose.length ≠ 0 := by
    intro h0
    have : r.eose = [] := List.length_eq_zero_iff.1 h0
    rw [this] at hopen; simp at hopen
  have hset : setEose st sub i = { st with req := alSet st.req sub { r with eose := r.eose.set i true } } := by
    have : ((r.eose.length : Int) == 0) = false := by
      have : (r.eose.length : Int) ≠ 0 := by omega
      simpa using this
    simp [setEose, h, Gen.reqSetEoseSkip, this]
  have h2 : alGet (setEose st sub i).req sub = some { r with eose := r.eose.set i true } := by
    rw [hset]; exact alGet_alSet_self _ _ _
  simp only [sendEose, allEose_present st sub r h, hopen, if_true, Gen.eoseAlready, Bool.false_eq_true, if_false,
    allEose_present _ sub _ h2, Gen.eoseNotYet]
  rw [hset]
  cases (r.eose.set i true).contains false <;> simp

/-- the merged EOSE is never early: it is forwarded only if every flag — one per child, set only by that
    child's own EOSE — is set -/
theorem eose_not_early (st : MergeSt) (i : Nat) (sub : String) (r : ReqSub) (h : alGet st.req sub = some r)
    (hopen : r.eose.contains false = true) (o : ServerMsg) (hout : (sendEose st i sub).2 = some o) :
    o = .eose sub ∧ ∀ j, j < r.eose.length → j ≠ i → r.eose[j]? = some true := by
  rw [eose_with_state st i sub r h hopen] at hout
  by_cases hc : false ∈ r.eose.set i true
  · simp [hc] at hout
  · simp [hc] at hout
    refine ⟨hout.symm, ?_⟩
    intro j hj hji
    have hc' : ∀ x ∈ r.eose.set i true, x ≠ false := by
      intro x hx hxf; apply hc; subst hxf; exact hx
    have hj' : j < (r.eose.set i true).length := by simpa using hj
    have hmem := List.getElem_mem hj'
    have hval := hc' _ hmem
    have : (r.eose.set i true)[j] = r.eose[j] := by
      simp [List.getElem_set, Ne.symm hji]
    rw [this] at hval
    simp [List.getElem?_eq_getElem hj]
    cases hb : r.eose[j] with
    | true => rfl
    | false => exact absurd hb hval

/-- once forwarded, the subscription's state is gone … -/
theorem eose_clears (st : MergeSt) (i : Nat) (sub : String) (o : ServerMsg)
    (hout : (sendEose st i sub).2 = some o) : alGet (sendEose st i sub).1.req sub = none := by
  cases h : alGet st.req sub with
  | none => rw [eose_without_state st i sub h] at hout; cases hout
  | some r =>
    by_cases hopen : r.eose.contains false = true
    · rw [eose_with_state st i sub r h hopen] at hout ⊢
      by_cases hc : false ∈ r.eose.set i true
      · simp [hc] at hout
      · simp [hc, alGet_alErase_self]
    · -- an all-true state cannot be stored, but if it were, the first `AllEOSE` removes it
      have : allEose st sub = ({ st with req := alErase st.req sub }, true) := by
        rw [allEose_present st sub r h]; simp only [hopen]; rfl
      simp [sendEose, this, Gen.eoseAlready, alGet_alErase_self]

/-! the frame: which steps can create state for `sub` -/

theorem sendEose_frame (st : MergeSt) (i : Nat) (sub k : String) (hk : alGet st.req k = none) :
    alGet (sendEose st i sub).1.req k = none := by
  by_cases hks : k = sub
  · subst hks; rw [eose_without_state st i k hk]; exact hk
  · cases h : alGet st.req sub with
    | none => rw [eose_without_state st i sub h]; exact hk
    | some r =>
      by_cases hopen : r.eose.contains false = true
      · rw [eose_with_state st i sub r h hopen]
        split <;> simp [alGet_alSet_ne _ _ _ _ hks, alGet_alErase_ne _ _ _ hks, hk]
      · have : allEose st sub = ({ st with req := alErase st.req sub }, true) := by
          rw [allEose_present st sub r h]; simp only [hopen]; rfl
        simp [sendEose, this, Gen.eoseAlready, alGet_alErase_ne _ _ _ hks, hk]

theorem allEose_frame (st : MergeSt) (sub k : String) (hk : alGet st.req k = none) :
    alGet (allEose st sub).1.req k = none := by
  cases h : alGet st.req sub with
  | none => rw [allEose_absent st sub h]; exact hk
  | some r =>
    rw [allEose_present st sub r h]
    split
    · exact hk
    · by_cases hks : k = sub
      · subst hks; simp [alGet_alErase_self]
      · simp [alGet_alErase_ne _ _ _ hks, hk]

theorem sendable_frame (st : MergeSt) (i : Nat) (sub : String) (e : Event) (k : String)
    (hk : alGet st.req k = none) : alGet (sendableEvent st i sub e).1.req k = none := by
  by_cases hks : k = sub
  · subst hks
    simp [sendableEvent, allEose_absent st k hk, Gen.evAllEose, hk]
  · have hf := allEose_frame st sub k hk
    unfold sendableEvent
    split
    · exact hf
    · split
      · exact hf
      · split
        · exact hf
        · simp [alGet_alSet_ne _ _ _ _ hks, hf]

theorem sendOK_req (st : MergeSt) (i : Nat) (m : OKMsg) : (sendOK st i m).1.req = st.req := by
  unfold sendOK; simp only []; split <;> (try split) <;> rfl

theorem sendCount_req (st : MergeSt) (i : Nat) (sub : String) (n : Nat) (a : Option Bool) :
    (sendCount st i sub n a).1.req = st.req := by
  unfold sendCount; simp only []; split <;> (try split) <;> rfl

/-- a child message never creates state for a subscription -/
theorem child_frame (st : MergeSt) (i : Nat) (m : ServerMsg) (k : String) (hk : alGet st.req k = none) :
    alGet (st.child i m).1.req k = none := by
  cases m with
  | eose sub => exact sendEose_frame st i sub k hk
  | event sub e => exact sendable_frame st i sub e k hk
  | ok id acc pfx msg => simp [MergeSt.child, sendOK_req, hk]
  | count sub n a => simp [MergeSt.child, sendCount_req, hk]
  | notice s => simpa [MergeSt.child] using hk
  | closed s p t => simpa [MergeSt.child] using hk
  | auth c => simpa [MergeSt.child] using hk

/-- only a REQ for `k` creates state for `k` -/
def isReqFor (k : String) : MStep → Bool
  | .client (.req s _) => s == k
  | _ => false

theorem client_frame (st : MergeSt) (m : ClientMsg) (k : String) (hk : alGet st.req k = none)
    (hnr : isReqFor k (.client m) = false) : alGet (st.client m).req k = none := by
  cases m with
  | event e => simpa [MergeSt.client] using hk
  | req s fs =>
    have : k ≠ s := by intro h; subst h; simp [isReqFor] at hnr
    simp [MergeSt.client, alGet_alSet_ne _ _ _ _ this, hk]
  | close s =>
    by_cases h : k = s
    · subst h; simp [MergeSt.client, alGet_alErase_self]
    · simp [MergeSt.client, alGet_alErase_ne _ _ _ h, hk]
  | count s fs => simpa [MergeSt.client] using hk
  | auth e => simpa [MergeSt.client] using hk

/-- a child message produces `EOSE k` only through `sendEose … k` -/
theorem child_eose_out (st : MergeSt) (i : Nat) (m : ServerMsg) (k : String)
    (hout : (st.child i m).2 = .ok (some (.eose k))) : m = .eose k := by
  cases m with
  | eose sub =>
    simp only [MergeSt.child] at hout
    cases h : alGet st.req sub with
    | none => rw [eose_without_state st i sub h] at hout; simp at hout
    | some r =>
      by_cases hopen : r.eose.contains false = true
      · rw [eose_with_state st i sub r h hopen] at hout
        by_cases hc : false ∈ r.eose.set i true
        · simp [hc] at hout
        · simp [hc] at hout; rw [hout]
      · have : allEose st sub = ({ st with req := alErase st.req sub }, true) := by
          rw [allEose_present st sub r h]; simp only [hopen]; rfl
        simp [sendEose, this, Gen.eoseAlready] at hout
  | event sub e =>
    simp only [MergeSt.child] at hout
    cases hv : (sendableEvent st i sub e).2 with
    | panic => simp [hv] at hout
    | ok b => cases b <;> simp [hv] at hout
  | ok id acc pfx msg =>
    simp only [MergeSt.child] at hout
    simp only [Res.ok.injEq] at hout
    obtain ⟨a, b, c, d, h⟩ := C09.sendOK_shape st i _ _ hout
    cases h
  | count sub n a =>
    simp only [MergeSt.child, Res.ok.injEq] at hout
    obtain ⟨a, b, c, h⟩ := C09.sendCount_shape st i sub n a _ hout
    cases h
  | notice s => simp [MergeSt.child] at hout
  | closed s p t => simp [MergeSt.child] at hout
  | auth c => simp [MergeSt.child] at hout

/-- number of merged `EOSE k` the client received -/
def eoseCount (k : String) (outs : List ServerMsg) : Nat := outs.countP (fun o => decide (o = .eose k))

theorem outOf_eose (st : MergeSt) (i : Nat) (m : ServerMsg) (k : String)
    (h : eoseCount k (outOf (st.child i m).2) ≠ 0) : (st.child i m).2 = .ok (some (.eose k)) := by
  cases hr : (st.child i m).2 with
  | panic => simp [hr, outOf, eoseCount] at h
  | ok o =>
    cases o with
    | none => simp [hr, outOf, eoseCount] at h
    | some x =>
      simp only [hr, outOf, eoseCount, List.countP_cons, List.countP_nil] at h
      by_cases hx : x = .eose k
      · rw [hx]
      · simp [hx] at h

/-- **C08, no EOSE without a REQ.**  While no REQ for `k` is (re-)issued, a subscription without state — never
    requested, closed by the client, or past its merged EOSE — produces no EOSE, whatever the children send. -/
theorem no_state_no_eose (k : String) (tr : List MStep) :
    ∀ st : MergeSt, alGet st.req k = none → (∀ s ∈ tr, isReqFor k s = false) →
      eoseCount k (runMerge st tr).2 = 0 := by
  induction tr with
  | nil => intro st _ _; rfl
  | cons s rest ih =>
    intro st hk hnr
    have hrest : ∀ s ∈ rest, isReqFor k s = false := fun s hs => hnr s (List.mem_cons_of_mem _ hs)
    cases s with
    | client m =>
      simp only [runMerge]
      exact ih _ (client_frame st m k hk (hnr _ (by simp))) hrest
    | child i m =>
      simp only [runMerge, eoseCount, List.countP_append]
      have h1 := ih _ (child_frame st i m k hk) hrest
      simp only [eoseCount] at h1
      rw [h1]
      by_cases hne' : eoseCount k (outOf (st.child i m).2) = 0
      · simpa [eoseCount] using hne'
      exfalso
      have hout := outOf_eose st i m k hne'
      have hm := child_eose_out st i m k hout
      subst hm
      simp [MergeSt.child, eose_without_state st i k hk] at hout

/-- **C08, never a second EOSE.**  Over any trace in which `k` is not re-issued, from any state, the client
    receives at most one `EOSE k`. -/
theorem eose_at_most_once (k : String) (tr : List MStep) :
    ∀ st : MergeSt, (∀ s ∈ tr, isReqFor k s = false) → eoseCount k (runMerge st tr).2 ≤ 1 := by
  induction tr with
  | nil => intro st _; simp [runMerge, eoseCount]
  | cons s rest ih =>
    intro st hnr
    have hrest : ∀ s ∈ rest, isReqFor k s = false := fun s hs => hnr s (List.mem_cons_of_mem _ hs)
    cases s with
    | client m => simp only [runMerge]; exact ih _ hrest
    | child i m =>
      simp only [runMerge, eoseCount, List.countP_append]
      by_cases hne : eoseCount k (outOf (st.child i m).2) = 0
      · simp only [eoseCount] at hne
        rw [hne]
        have := ih (st.child i m).1 hrest
        simp only [eoseCount] at this
        omega
      · have hout := outOf_eose st i m k hne
        have hm := child_eose_out st i m k hout
        subst hm
        have hclr : alGet (st.child i (.eose k)).1.req k = none := by
          simp only [MergeSt.child] at hout ⊢
          exact eose_clears st i k (.eose k) (by simpa using hout)
        have h0 := no_state_no_eose k rest _ hclr hrest
        simp only [eoseCount] at h0
        rw [h0, hout]
        simp [outOf]

/-- a CLOSE removes the state: from then on (until a new REQ) no EOSE for it is forwarded -/
theorem closed_no_eose (st : MergeSt) (k : String) (tr : List MStep) (hnr : ∀ s ∈ tr, isReqFor k s = false) :
    eoseCount k (runMerge st (.client (.close k) :: tr)).2 = 0 := by
  simp only [runMerge]
  exact no_state_no_eose k tr _ (by simp [MergeSt.client, alGet_alErase_self]) hnr

/-! ## Part 2: events -/

/-- **C08, forwarded unchanged with the child's subscription id.**  For a child's EVENT the client receives
    nothing or exactly that message. -/
theorem event_out_shape (st : MergeSt) (i : Nat) (sub : String) (e : Event) :
    (st.child i (.event sub e)).2 = .panic ∨ (st.child i (.event sub e)).2 = .ok none ∨
      (st.child i (.event sub e)).2 = .ok (some (.event sub e)) := by
  simp only [MergeSt.child]
  cases (sendableEvent st i sub e).2 with
  | panic => exact Or.inl rfl
  | ok b => cases b <;> simp

/-- **C08, after the EOSE.**  Once the state is gone (merged EOSE forwarded), every event a child emits for the
    subscription is forwarded unchanged and the state stays as it is — hence in that child's order. -/
theorem event_after_eose (st : MergeSt) (i : Nat) (sub : String) (e : Event) (h : alGet st.req sub = none) :
    st.child i (.event sub e) = (st, .ok (some (.event sub e))) := by
  simp [MergeSt.child, sendableEvent, allEose_absent st sub h, Gen.evAllEose]

/-- what `subStep` demands of an event it lets through -/
theorem subStep_forward (r : ReqSub) (e : Event) (h : (subStep r e).2 = .ok true) :
    (∀ l, r.last = some l → e.createdAt ≤ l.createdAt) ∧
    (∀ l, r.last = some l → l.createdAt = e.createdAt → e.id ∉ r.seen) ∧
    doneAll r.matchers = false ∧
    (∃ ms', limitMatchAll r.matchers e = .ok (true, ms')) := by
  unfold subStep at h
  cases ho : ordStep r e with
  | none => simp [ho] at h
  | some r1 =>
    simp only [ho, Gen.evSeen, Gen.evDone, Gen.evNoMatch, Bool.false_or] at h
    -- r1 is r, with `seen` forgotten when e is strictly older than the last event
    have hr1 : r1.matchers = r.matchers ∧ (∀ l, r.last = some l → e.createdAt ≤ l.createdAt) ∧
        (∀ l, r.last = some l → l.createdAt = e.createdAt → r1.seen = r.seen) := by
      unfold ordStep at ho
      cases hl : r.last with
      | none => simp [hl] at ho; subst ho; simp
      | some l =>
        simp only [hl, Gen.evNewer, Gen.evOlder, cmpInt] at ho
        by_cases h1 : l.createdAt < e.createdAt
        · simp [h1] at ho
        · by_cases h2 : l.createdAt > e.createdAt
          · simp [h1, h2] at ho
            subst ho
            refine ⟨rfl, ?_, ?_⟩
            · intro l' hl'; cases hl'; omega
            · intro l' hl' heq; cases hl'; omega
          · simp [h1, h2] at ho
            subst ho
            refine ⟨rfl, ?_, ?_⟩
            · intro l' hl'; cases hl'; omega
            · intro l' hl' heq; rfl
    obtain ⟨hm, hord, hseen⟩ := hr1
    by_cases hs : e.id ∈ r1.seen
    · simp [hs] at h
    · simp only [List.contains_eq_mem, hs, decide_false, Bool.false_eq_true, if_false] at h
      by_cases hd : doneAll r1.matchers = true
      · simp [hd] at h
      · simp only [hd, Bool.false_eq_true, if_false] at h
        cases hlm : limitMatchAll r1.matchers e with
        | panic => simp [hlm] at h
        | ok p =>
          obtain ⟨m, ms'⟩ := p
          simp only [hlm] at h
          have hmt : m = true := by simpa using h
          subst hmt
          refine ⟨hord, ?_, ?_, ?_⟩
          · intro l hl heq
            rw [← hseen l hl heq]
            exact hs
          · rw [← hm]; simpa using hd
          · rw [← hm]; exact ⟨ms', hlm⟩

/-- **C08, before the EOSE.**  An event forwarded while the subscription is open comes from a child that has
    not yet sent its EOSE, is not newer than the last event looked at (so the forwarded stream is non-increasing
    in created_at), has an id not seen at its timestamp (so no duplicates), found the limit not exhausted, and
    matches one of the REQ's filters in the sense of NIP-01. -/
theorem event_before_eose (st : MergeSt) (i : Nat) (sub : String) (e : Event) (r : ReqSub)
    (h : alGet st.req sub = some r) (hopen : r.eose.contains false = true)
    (hwf : ∀ m ∈ r.matchers, m.f.WF) (hne : C02.TagsNonEmpty e)
    (hout : (st.child i (.event sub e)).2 = .ok (some (.event sub e))) :
    r.eose.getD i false = false ∧
    (∀ l, r.last = some l → e.createdAt ≤ l.createdAt) ∧
    (∀ l, r.last = some l → l.createdAt = e.createdAt → e.id ∉ r.seen) ∧
    doneAll r.matchers = false ∧
    nip01MatchAnyB (r.matchers.map (·.f)) e = true := by
  have ha : allEose st sub = (st, false) := by rw [allEose_present st sub r h]; simp only [hopen, if_true]
  simp only [MergeSt.child] at hout
  have hv : (sendableEvent st i sub e).2 = .ok true := by
    cases hr : (sendableEvent st i sub e).2 with
    | panic => simp [hr] at hout
    | ok b => cases b <;> simp [hr] at hout; rfl
  unfold sendableEvent at hv
  simp only [ha, Gen.evAllEose, Bool.false_eq_true, if_false, h, Gen.evChildEose, Gen.reqIsEose] at hv
  by_cases hce : (((r.eose.length : Int) == 0) || r.eose.getD i false) = true
  · rw [if_pos hce] at hv; simp at hv
  · rw [if_neg hce] at hv
    obtain ⟨h1, h2, h3, ms', h4⟩ := subStep_forward r e hv
    refine ⟨?_, h1, h2, h3, ?_⟩
    · simp only [Bool.or_eq_true, not_or, Bool.not_eq_true] at hce
      exact hce.2
    · obtain ⟨ms'', hspec⟩ := C02.limitMatchAll_verdict r.matchers e hwf hne
      rw [hspec] at h4
      simp at h4
      exact h4.1

/-- a REQ opens the subscription: one unset flag per child, nothing seen, fresh limit counters — the premises
    `alGet st.req sub = some r`, `r.eose.contains false` of the theorems above hold right after it -/
theorem req_opens (st : MergeSt) (sub : String) (fs : List Filter) (hn : 0 < st.n) :
    ∃ r, alGet (st.client (.req sub fs)).req sub = some r ∧ r.eose = List.replicate st.n false ∧
      r.eose.contains false = true ∧ r.last = none ∧ r.seen = [] ∧ r.matchers = newMatchers fs := by
  refine ⟨_, by simp only [MergeSt.client]; exact alGet_alSet_self _ _ _, rfl, ?_, rfl, rfl, rfl⟩
  cases hn' : st.n with
  | zero => omega
  | succ m => simp [List.replicate_succ]

/-! non-vacuity: two children; the second child's newer event arrives late and is dropped, a duplicate is
    dropped, the EOSE comes after both children's, a live event afterwards is forwarded -/
def ev (id : String) (t : Int) : Event := { id := id, pubkey := "p", createdAt := t, kind := 1, tags := [], content := "", sig := "" }
def exTrace : List MStep :=
  [.client (.req "s" [{}]),
   .child 0 (.event "s" (ev "a" 20)), .child 1 (.event "s" (ev "b" 30)), .child 1 (.event "s" (ev "a" 20)),
   .child 1 (.event "s" (ev "c" 10)), .child 0 (.eose "s"), .child 0 (.eose "s"), .child 1 (.eose "s"),
   .child 1 (.eose "s"), .child 0 (.event "s" (ev "z" 99))]
example : (runMerge { n := 2 } exTrace).2 =
    [.event "s" (ev "a" 20), .event "s" (ev "c" 10), .eose "s", .event "s" (ev "z" 99)] := by decide

end Moc.C08
