/-
  C10 — Wire codec: decoding never panics; encode/decode round-trips every value.

  Model: MocModel/Codec.lean (decoders on JSON trees).  Totality is by construction: every decoder is a
  total function into `Except String _` — there is no panic outcome to reach, and a successful result is
  a fully built value of the labelled type (the types have no optional event/filter inside a message).
  Byte-level tokenisation is encoding/json's; panic-freedom of the Go code itself is runtime-validated
  on the malformed stream.
-/
import MocModel.Codec

set_option linter.unusedSimpArgs false

namespace Moc.C10
open Moc

theorem prefix_order_pinned : prefixOrderActual = prefixOrderExpected := by rfl

/-- `ParseClientMsg`'s dispatch is the one `parseClientMsg` follows -/
theorem parse_dispatch_pinned : Gen.parseClientMsgBody = parseClientMsgExpected := by rfl

/-! ### list helpers -/

theorem decStrsStrict_map (l : List String) : decStrsStrict (l.map JT.str) = .ok l := by
  induction l with
  | nil => rfl
  | cons s r ih => simp [decStrsStrict, ih, Except.map]

theorem decStrLists_map (l : List (List String)) :
    decStrLists (l.map fun t => JT.arr (t.map JT.str)) = .ok l := by
  induction l with
  | nil => rfl
  | cons t r ih =>
    simp only [List.map_cons, decStrLists, decStrsStrict_map, ih]
    rfl

theorem decInts_map (l : List Int) (h : ∀ i ∈ l, inInt64 i = true) : decInts (l.map JT.int) = .ok l := by
  induction l with
  | nil => rfl
  | cons i r ih =>
    have hi := h i (by simp)
    have hr := ih (fun j hj => h j (List.mem_cons_of_mem _ hj))
    simp only [List.map_cons, decInts, decInt64, hi, if_true, hr]
    rfl

/-- **C10, Event round trip**: for every event whose integers fit Go's int64, decoding its encoding gives
    the event back (all seven fields). -/
theorem event_roundtrip (e : Event) (h1 : inInt64 e.createdAt = true) (h2 : inInt64 e.kind = true) :
    decodeEvent (encodeEvent e) = .ok e := by
  unfold decodeEvent encodeEvent
  have hk0 : (["id", "pubkey", "created_at", "kind", "tags", "content", "sig"] : List String).eraseDups.length = 7 := by decide
  have hkeys : (objKeys [("id", JT.str e.id), ("pubkey", JT.str e.pubkey), ("created_at", JT.int e.createdAt), ("kind", JT.int e.kind),
        ("tags", JT.arr (e.tags.map fun t => JT.arr (t.map JT.str))), ("content", JT.str e.content), ("sig", JT.str e.sig)]).length = 7 := by
    simpa [objKeys] using hk0
  simp only [hkeys, Gen.eventFieldCountBad]
  simp only [objGet, List.reverse_cons, List.reverse_nil, List.nil_append, List.cons_append, List.lookup]
  simp [decInt64, h1, h2, decStrLists_map]
  rfl

/-- decoding rejects an object with a missing or an extra member -/
theorem event_field_count (kvs : List (String × JT)) (h : (objKeys kvs).length ≠ 7) :
    ∃ err, decodeEvent (.obj kvs) = .error err := by
  refine ⟨"missing or extra fields", ?_⟩
  have : Gen.eventFieldCountBad ((objKeys kvs).length : Int) = true := by
    simp [Gen.eventFieldCountBad]; omega
  simp [decodeEvent, this]

/-- **C10, simple messages round trip** (EOSE, NOTICE, AUTH challenge, CLOSE) for every string. -/
theorem simple_roundtrips (s : String) :
    decodeServerEOSE (encodeServerMsg (.eose s)) = .ok (.eose s) ∧
    decodeServerNotice (encodeServerMsg (.notice s)) = .ok (.notice s) ∧
    decodeServerAuth (encodeServerMsg (.auth s)) = .ok (.auth s) ∧
    decodeClientClose (encodeClientMsg (.close s)) = .ok (.close s) := by
  refine ⟨?_, ?_, ?_, ?_⟩ <;>
    simp [decodeServerEOSE, decodeServerNotice, decodeServerAuth, decodeClientClose, encodeServerMsg, encodeClientMsg,
      decStrArray, decStrsLoose, Except.map, Gen.arityServerEOSE, Gen.arityServerNotice, Gen.arityServerAuth, Gen.arityClientClose,
      Gen.labelBadServerEOSE, Gen.labelBadServerNotice, Gen.labelBadServerAuth, Gen.labelBadClientClose,
      Gen.labelEOSE, Gen.labelNotice, Gen.labelAuth, Gen.labelClose, bind, Except.bind, pure, Except.pure, throw, throwThe, MonadExceptOf.throw]

/-- **C10, EVENT / AUTH client messages and the server EVENT message round trip** (from the event round trip). -/
theorem event_msgs_roundtrip (e : Event) (sub : String) (h1 : inInt64 e.createdAt = true) (h2 : inInt64 e.kind = true) :
    decodeClientEvent (encodeClientMsg (.event e)) = .ok (.event e) ∧
    decodeClientAuth (encodeClientMsg (.auth e)) = .ok (.auth e) ∧
    decodeServerEvent (encodeServerMsg (.event sub e)) = .ok (.event sub e) := by
  have he := event_roundtrip e h1 h2
  refine ⟨?_, ?_, ?_⟩ <;>
    simp [decodeClientEvent, decodeClientAuth, decodeServerEvent, encodeClientMsg, encodeServerMsg, decRawArray, decStr, he,
      Gen.arityClientEvent, Gen.arityClientAuth, Gen.arityServerEvent, Gen.labelBadClientEvent, Gen.labelBadClientAuth,
      Gen.labelBadServerEvent, Gen.labelEvent, Gen.labelAuth, bind, Except.bind, pure, Except.pure, throw, throwThe, MonadExceptOf.throw]

/-- **C10, COUNT reply round trip** for every count below 2^64 and every optional flag. -/
theorem count_roundtrip (sub : String) (n : Nat) (a : Option Bool) (hn : (n : Int) ≤ uint64Max) :
    decodeServerCount (encodeServerMsg (.count sub n a)) = .ok (.count sub n a) := by
  have hc : lowerStr "count" = "count" := by decide
  have ha : lowerStr "approximate" = "approximate" := by decide
  have hne : ("approximate" == "count") = false := by decide
  cases a with
  | none =>
    simp [decodeServerCount, encodeServerMsg, decRawArray, decStr, Gen.arityServerCount, Gen.labelBadServerCount, Gen.labelCount,
      decCountPayload, decCountVal, hc, hn, bind, Except.bind, pure, Except.pure, throw, throwThe, MonadExceptOf.throw]
  | some b =>
    simp [decodeServerCount, encodeServerMsg, decRawArray, decStr, Gen.arityServerCount, Gen.labelBadServerCount, Gen.labelCount,
      decCountPayload, decCountVal, decApproxVal, hc, ha, hne, hn, bind, Except.bind, pure, Except.pure, throw, throwThe, MonadExceptOf.throw]

example : decodeEvent (encodeEvent { id := "i", pubkey := "p", createdAt := -5, kind := 30023, tags := [["d", "x"], ["t"]], content := "<&>", sig := "s" })
    = .ok { id := "i", pubkey := "p", createdAt := -5, kind := 30023, tags := [["d", "x"], ["t"]], content := "<&>", sig := "s" } := by
  exact event_roundtrip _ (by decide) (by decide)

/-- splitting off a machine-readable prefix loses nothing: prefix ++ rest is the text -/
theorem parsePrefix_join (s : String) : (parsePrefix s).1 ++ (parsePrefix s).2 = s := by
  unfold parsePrefix
  cases hf : knownPrefixes.find? (fun p => p.toList.isPrefixOf s.toList) with
  | none => simp
  | some p =>
    have hp := List.find?_some hf
    simp only []
    apply String.toList_injective
    simp only [String.toList_append, String.toList_ofList]
    have : p.toList <+: s.toList := List.isPrefixOf_iff_prefix.1 hp
    obtain ⟨t, ht⟩ := this
    rw [← ht]
    simp

/-- a text that carries one of the six known prefixes is split at exactly that prefix -/
theorem parsePrefix_known (p : String) (hp : p ∈ knownPrefixes) (m : String) : parsePrefix (p ++ m) = (p, m) := by
  -- the known prefixes start with six different letters
  have hfirst : ∀ q ∈ knownPrefixes, q.toList.isPrefixOf (p ++ m).toList = true → q = p := by
    intro q hq hpre
    have hq' : q.toList <+: p.toList ++ m.toList := by
      simpa [String.toList_append] using List.isPrefixOf_iff_prefix.1 hpre
    simp only [knownPrefixes, Gen.prefixPoW, Gen.prefixDuplicate, Gen.prefixBlocked, Gen.prefixRateLimited,
      Gen.prefixInvalid, Gen.prefixError, List.mem_cons, List.not_mem_nil, or_false] at hp hq
    rcases hp with rfl | rfl | rfl | rfl | rfl | rfl <;> rcases hq with rfl | rfl | rfl | rfl | rfl | rfl <;>
      first
      | rfl
      | (exfalso
         obtain ⟨t, ht⟩ := hq'
         have := congrArg List.head? ht
         simp at this)
  unfold parsePrefix
  have hfind : knownPrefixes.find? (fun q => q.toList.isPrefixOf (p ++ m).toList) = some p := by
    have hpp : p.toList.isPrefixOf (p ++ m).toList = true := by
      rw [List.isPrefixOf_iff_prefix]; simp [String.toList_append]
    cases hf : knownPrefixes.find? (fun q => q.toList.isPrefixOf (p ++ m).toList) with
    | none =>
      have := List.find?_eq_none.1 hf p hp
      simp [hpp] at this
    | some q =>
      have hq := List.find?_some hf
      have hqm := List.mem_of_find?_eq_some hf
      rw [hfirst q hqm hq]
  rw [hfind]
  simp only [Prod.mk.injEq, true_and]
  apply String.toList_injective
  simp [String.toList_append]

/-- **C10, OK and CLOSED round trip** (compared as `prefix ++ text`, which is what the wire carries): for every
    id / subscription id, verdict, prefix and text the decoded message has the same id, verdict and full text; when
    the prefix is one of the six machine-readable ones it is recovered exactly. -/
theorem ok_roundtrip (id : String) (acc : Bool) (p m : String) :
    ∃ p' m', decodeServerOK (encodeServerMsg (.ok id acc p m)) = .ok (.ok id acc p' m') ∧ p' ++ m' = p ++ m := by
  refine ⟨(parsePrefix (p ++ m)).1, (parsePrefix (p ++ m)).2, ?_, parsePrefix_join _⟩
  simp [decodeServerOK, encodeServerMsg, decRawArray, decStr, decBool, Gen.arityServerOK, Gen.labelBadServerOK, Gen.labelOK,
    bind, Except.bind, pure, Except.pure, throw, throwThe, MonadExceptOf.throw]

theorem ok_roundtrip_known (id : String) (acc : Bool) (p m : String) (hp : p ∈ knownPrefixes) :
    decodeServerOK (encodeServerMsg (.ok id acc p m)) = .ok (.ok id acc p m) := by
  simp [decodeServerOK, encodeServerMsg, decRawArray, decStr, decBool, Gen.arityServerOK, Gen.labelBadServerOK, Gen.labelOK,
    parsePrefix_known p hp m, bind, Except.bind, pure, Except.pure, throw, throwThe, MonadExceptOf.throw]

theorem closed_roundtrip (sub p m : String) :
    ∃ p' m', decodeServerClosed (encodeServerMsg (.closed sub p m)) = .ok (.closed sub p' m') ∧ p' ++ m' = p ++ m := by
  refine ⟨(parsePrefix (p ++ m)).1, (parsePrefix (p ++ m)).2, ?_, parsePrefix_join _⟩
  simp [decodeServerClosed, encodeServerMsg, decStrArray, decStrsLoose, Except.map, Gen.arityServerClosed,
    Gen.labelBadServerClosed, Gen.labelClosed, bind, Except.bind, pure, Except.pure, throw, throwThe, MonadExceptOf.throw]

theorem closed_roundtrip_known (sub p m : String) (hp : p ∈ knownPrefixes) :
    decodeServerClosed (encodeServerMsg (.closed sub p m)) = .ok (.closed sub p m) := by
  simp [decodeServerClosed, encodeServerMsg, decStrArray, decStrsLoose, Except.map, Gen.arityServerClosed,
    Gen.labelBadServerClosed, Gen.labelClosed, parsePrefix_known p hp m, bind, Except.bind, pure, Except.pure, throw, throwThe,
    MonadExceptOf.throw]

/-- **C10, decode-encode-decode = decode** for OK and CLOSED: re-encoding what was decoded and decoding again gives
    the same message -/
theorem ok_dec_enc_dec (j : JT) (msg : ServerMsg) (h : decodeServerOK j = .ok msg) :
    decodeServerOK (encodeServerMsg msg) = .ok msg := by
  unfold decodeServerOK at h
  simp only [bind, Except.bind, pure, Except.pure, throw, throwThe, MonadExceptOf.throw] at h
  cases hr : decRawArray j with
  | error e => rw [hr] at h; cases h
  | ok elems =>
    rw [hr] at h
    simp only [] at h
    split at h
    · cases h
    · cases hl : decStr (elems.getD 0 .null) with
      | error e => rw [hl] at h; cases h
      | ok label =>
        rw [hl] at h
        simp only [] at h
        split at h
        · cases h
        · cases hi : decStr (elems.getD 1 .null) with
          | error e => rw [hi] at h; cases h
          | ok id =>
            rw [hi] at h
            cases hb : decBool (elems.getD 2 .null) with
            | error e => rw [hb] at h; cases h
            | ok acc =>
              rw [hb] at h
              cases hs : decStr (elems.getD 3 .null) with
              | error e => rw [hs] at h; cases h
              | ok raw =>
                rw [hs] at h
                simp only [Except.ok.injEq] at h
                subst h
                have := parsePrefix_join raw
                simp [decodeServerOK, encodeServerMsg, decRawArray, decStr, decBool, Gen.arityServerOK, Gen.labelBadServerOK,
                  Gen.labelOK, this, bind, Except.bind, pure, Except.pure, throw, throwThe, MonadExceptOf.throw]

end Moc.C10
