/-
  C08, trace level: the stream forwarded before the merged EOSE is non-increasing in created_at, pairwise distinct,
  matches the REQ's filters and respects a single filter's limit — for every trace (`pre_eose_stream`,
  `pre_eose_stream_from_req`).  Invariant `SInv` relates the per-subscription state (last event looked at, ids seen
  at its timestamp, limit counters) to the list of events forwarded so far; `subStep_inv` carries it through one
  look at a child's event, `J_child` / `J_client` through every step of a session.
-/
import MocModel.Merge
import MocModel.Spec.Nip01
import MocProps.MergeLemmas
import MocProps.C02
import MocProps.C08
set_option linter.unusedSimpArgs false
set_option linter.unusedVariables false
namespace Moc.C08
open Moc

/-- what the events forwarded so far for an open subscription (`F`, oldest first) have to do with its state -/
structure SInv (filters : List Filter) (r : ReqSub) (F : List Event) : Prop where
  fs : r.matchers.map (·.f) = filters
  empty : r.last = none → F = []
  ge : ∀ l, r.last = some l → ∀ f ∈ F, l.createdAt ≤ f.createdAt
  seen : ∀ l, r.last = some l → ∀ f ∈ F, f.createdAt = l.createdAt → f.id ∈ r.seen
  sorted : F.Pairwise (fun a b => a.createdAt ≥ b.createdAt)
  distinct : F.Pairwise (· ≠ ·)
  matched : ∀ f ∈ F, nip01MatchAnyB filters f = true
  count : ∀ m0, r.matchers = [m0] → m0.cnt = (F.length : Int)
  lim : ∀ m0 n, r.matchers = [m0] → m0.f.limit = some n → F = [] ∨ (F.length : Int) ≤ n

theorem ordStep_spec (r : ReqSub) (e : Event) :
    (ordStep r e = none ∧ ∃ l, r.last = some l ∧ l.createdAt < e.createdAt) ∨
    (∃ r1, ordStep r e = some r1 ∧ r1.last = r.last ∧ r1.matchers = r.matchers ∧ r1.eose = r.eose ∧
      (∀ l, r.last = some l → e.createdAt ≤ l.createdAt) ∧
      (∀ l, r.last = some l → l.createdAt = e.createdAt → r1.seen = r.seen) ∧
      (r.last = none → r1.seen = r.seen)) := by
  unfold ordStep
  split
  · rename_i hl
    exact Or.inr ⟨r, rfl, rfl, rfl, rfl, by simp [hl], by simp [hl], fun _ => rfl⟩
  · rename_i l hl
    simp only [Gen.evNewer, Gen.evOlder, cmpInt]
    by_cases h1 : l.createdAt < e.createdAt
    · exact Or.inl ⟨by simp [h1], l, hl, h1⟩
    · by_cases h2 : l.createdAt > e.createdAt
      · refine Or.inr ⟨{ r with seen := [] }, by simp [h1, h2], rfl, rfl, rfl, ?_, ?_, by simp [hl]⟩
        · intro l' hl'; rw [hl] at hl'; cases hl'; omega
        · intro l' hl' heq; rw [hl] at hl'; cases hl'; omega
      · refine Or.inr ⟨r, by simp [h1, h2], rfl, rfl, rfl, ?_, ?_, by simp⟩
        · intro l' hl'; rw [hl] at hl'; cases hl'; omega
        · intro l' hl' heq; rfl

/-- **one look at a child's event keeps the stream invariant**, whether the event is forwarded or not -/
theorem subStep_inv (filters : List Filter) (r : ReqSub) (F : List Event) (e : Event)
    (h : SInv filters r F) (hwf : ∀ f ∈ filters, f.WF) (hne : C02.TagsNonEmpty e) :
    ∃ b, (subStep r e).2 = .ok b ∧ SInv filters (subStep r e).1 (if b then F ++ [e] else F) := by
  have hwfm : ∀ m ∈ r.matchers, m.f.WF := by
    intro m hm; apply hwf; rw [← h.fs]; exact List.mem_map.2 ⟨m, hm, rfl⟩
  unfold subStep
  rcases ordStep_spec r e with ⟨ho, l, hl, hlt⟩ | ⟨r1, ho, h1l, h1m, h1e, hle, hsame, hnone⟩
  · exact ⟨false, by simp [ho], by simpa [ho] using h⟩
  · simp only [ho, Gen.evSeen, Gen.evDone, Gen.evNoMatch, Bool.false_or]
    -- facts shared by the three branches that move `last` to e
    have hge' : ∀ f ∈ F, e.createdAt ≤ f.createdAt := by
      intro f hf
      cases hl : r.last with
      | none => rw [h.empty hl] at hf; cases hf
      | some l => have := h.ge l hl f hf; have := hle l hl; omega
    have hseen' : ∀ f ∈ F, f.createdAt = e.createdAt → f.id ∈ r1.seen := by
      intro f hf heq
      cases hl : r.last with
      | none => rw [h.empty hl] at hf; cases hf
      | some l =>
        have h1 := h.ge l hl f hf
        have h2 := hle l hl
        have hlq : l.createdAt = e.createdAt := by omega
        rw [hsame l hl hlq]
        exact h.seen l hl f hf (by omega)
    by_cases hs : e.id ∈ r1.seen
    · refine ⟨false, by simp [hs], ?_⟩
      simp only [List.contains_eq_mem, hs, decide_true, if_true, Bool.false_eq_true, if_false]
      exact ⟨by simpa [h1m] using h.fs, by simp, fun l hl f hf => by cases hl; exact hge' f hf,
        fun l hl f hf heq => by cases hl; exact hseen' f hf heq, h.sorted, h.distinct, h.matched,
        fun m0 hm0 => h.count m0 (by simpa [h1m] using hm0),
        fun m0 n hm0 hn => h.lim m0 n (by simpa [h1m] using hm0) hn⟩
    · simp only [List.contains_eq_mem, hs, decide_false, Bool.false_eq_true, if_false]
      by_cases hd : doneAll r1.matchers = true
      · refine ⟨false, by simp [hd], ?_⟩
        simp only [hd, if_true, Bool.false_eq_true, if_false]
        exact ⟨by simpa [h1m] using h.fs, by simp, fun l hl f hf => by cases hl; exact hge' f hf,
          fun l hl f hf heq => by cases hl; exact List.mem_cons_of_mem _ (hseen' f hf heq), h.sorted, h.distinct,
          h.matched, fun m0 hm0 => h.count m0 (by simpa [h1m] using hm0),
          fun m0 n hm0 hn => h.lim m0 n (by simpa [h1m] using hm0) hn⟩
      · simp only [hd, Bool.false_eq_true, if_false]
        have hspec := C02.limitMatchAll_spec r1.matchers e (by rw [h1m]; exact hwfm) hne
        rw [hspec]
        simp only [Bool.not_not]
        have hfs' : (r1.matchers.map fun m => ({ m with cnt := m.cnt + (if nip01MatchB m.f e then 1 else 0) } : LMatcher)).map (·.f) = filters := by
          simp only [List.map_map, Function.comp_def]
          rw [h1m]; exact h.fs
        have hany : (r1.matchers.any fun m => nip01MatchB m.f e) = nip01MatchAnyB filters e := by
          rw [← h.fs, h1m]; simp [nip01MatchAnyB, List.any_map, Function.comp_def]
        refine ⟨r1.matchers.any fun m => nip01MatchB m.f e, rfl, ?_⟩
        cases hb : (r1.matchers.any fun m => nip01MatchB m.f e) with
        | false =>
          simp only [Bool.false_eq_true, if_false]
          refine ⟨hfs', by simp, fun l hl f hf => by cases hl; exact hge' f hf,
            fun l hl f hf heq => by cases hl; exact List.mem_cons_of_mem _ (hseen' f hf heq), h.sorted, h.distinct,
            h.matched, ?_, ?_⟩
          rotate_left
          · intro m0 n hm0 hn
            rw [h1m] at hm0
            cases hmm : r.matchers with
            | nil => simp [hmm] at hm0
            | cons a as =>
              cases as with
              | cons b bs => simp [hmm] at hm0
              | nil =>
                simp only [hmm, List.map_cons, List.map_nil, List.cons.injEq, and_true] at hm0
                subst hm0
                exact h.lim a n hmm hn
          intro m0 hm0
          -- a single matcher that did not match keeps its counter
          rw [h1m] at hm0 hb
          cases hmm : r.matchers with
          | nil => simp [hmm] at hm0
          | cons a as =>
            cases as with
            | cons b bs => simp [hmm] at hm0
            | nil =>
              simp only [hmm, List.map_cons, List.map_nil, List.cons.injEq, and_true] at hm0
              simp only [hmm, List.any_cons, List.any_nil, Bool.or_false] at hb
              subst hm0
              simp only [hb, Bool.false_eq_true, if_false, Int.add_zero]
              exact h.count a hmm
        | true =>
          simp only [if_true]
          refine ⟨hfs', by simp, ?_, ?_, ?_, ?_, ?_, ?_, ?_⟩
          rotate_right
          · -- the limit: the event was let through only because the single matcher was not done
            intro m0 n hm0 hn
            right
            rw [h1m] at hm0 hd
            cases hmm : r.matchers with
            | nil => simp [hmm] at hm0
            | cons a as =>
              cases as with
              | cons b bs => simp [hmm] at hm0
              | nil =>
                simp only [hmm, List.map_cons, List.map_nil, List.cons.injEq, and_true] at hm0
                subst hm0
                simp only [] at hn
                have hc := h.count a hmm
                simp only [hmm, doneAll, List.all_cons, List.all_nil, Bool.and_true, LMatcher.done, Gen.limitDone, hn,
                  Option.isSome_some, Option.getD_some, Bool.true_and, decide_eq_true_eq] at hd
                simp only [List.length_append, List.length_singleton]
                push_cast
                omega
          · intro l hl f hf; cases hl
            rcases List.mem_append.1 hf with hf | hf
            · exact hge' f hf
            · simp at hf; subst hf; omega
          · intro l hl f hf heq; cases hl
            rcases List.mem_append.1 hf with hf | hf
            · exact List.mem_cons_of_mem _ (hseen' f hf heq)
            · simp at hf; subst hf; simp
          · rw [List.pairwise_append]
            exact ⟨h.sorted, by simp, fun a ha b hb => by simp at hb; subst hb; exact hge' a ha⟩
          · rw [List.pairwise_append]
            refine ⟨h.distinct, by simp, fun a ha b hb => ?_⟩
            simp at hb; subst hb
            intro heq; subst heq
            exact hs (hseen' a ha rfl)
          · intro f hf
            rcases List.mem_append.1 hf with hf | hf
            · exact h.matched f hf
            · simp at hf; subst hf; rw [← hany]; exact hb
          · intro m0 hm0
            rw [h1m] at hm0 hb
            cases hmm : r.matchers with
            | nil => simp [hmm] at hm0
            | cons a as =>
              cases as with
              | cons b bs => simp [hmm] at hm0
              | nil =>
                simp only [hmm, List.map_cons, List.map_nil, List.cons.injEq, and_true] at hm0
                simp only [hmm, List.any_cons, List.any_nil, Bool.or_false] at hb
                subst hm0
                simp only [hb, if_true, List.length_append, List.length_singleton]
                have := h.count a hmm
                push_cast
                omega

/-! ### lifting to traces -/

/-- what the statement asks of the events forwarded before the EOSE -/
def Good (filters : List Filter) (F : List Event) : Prop :=
  F.Pairwise (fun a b => a.createdAt ≥ b.createdAt) ∧ F.Pairwise (· ≠ ·) ∧
  (∀ f ∈ F, nip01MatchAnyB filters f = true) ∧
  (∀ f0 n, filters = [f0] → f0.limit = some n → F = [] ∨ (F.length : Int) ≤ n)

theorem SInv.good {filters : List Filter} {r : ReqSub} {F : List Event} (h : SInv filters r F) : Good filters F := by
  refine ⟨h.sorted, h.distinct, h.matched, ?_⟩
  intro f0 n hf hn
  have hfs := h.fs
  rw [hf] at hfs
  cases hmm : r.matchers with
  | nil => simp [hmm] at hfs
  | cons a as =>
    cases as with
    | cons b bs => simp [hmm] at hfs
    | nil =>
      simp only [hmm, List.map_cons, List.map_nil, List.cons.injEq, and_true] at hfs
      exact h.lim a n hmm (by rw [hfs]; exact hn)

/-- what one child message adds to the stream forwarded for `sub` before its EOSE -/
def fwdOf (sub : String) (st : MergeSt) (i : Nat) (msg : ServerMsg) : List Event :=
  match msg with
  | .event s e =>
    if s = sub ∧ (alGet st.req sub).isSome = true ∧ (st.child i msg).2 = .ok (some (.event s e)) then [e] else []
  | _ => []

/-- the events forwarded for `sub` while its state exists, i.e. before its merged EOSE (or CLOSE) -/
def preFwd (sub : String) : MergeSt → List MStep → List Event
  | _, [] => []
  | st, .client m :: tr => preFwd sub (st.client m) tr
  | st, .child i msg :: tr => fwdOf sub st i msg ++ preFwd sub (st.child i msg).1 tr

/-- the invariant carried along the trace -/
def J (filters : List Filter) (sub : String) (st : MergeSt) (F : List Event) : Prop :=
  match alGet st.req sub with
  | some r => SInv filters r F ∧ r.eose.contains false = true
  | none => Good filters F

theorem allEose_frame_ne (st : MergeSt) (sub k : String) (hk : k ≠ sub) :
    alGet (allEose st sub).1.req k = alGet st.req k := by
  cases h : alGet st.req sub with
  | none => rw [allEose_absent st sub h]
  | some r =>
    rw [allEose_present st sub r h]
    split
    · rfl
    · simp [alGet_alErase_ne _ _ _ hk]

theorem setEose_frame_ne (st : MergeSt) (sub k : String) (i : Nat) (hk : k ≠ sub) :
    alGet (setEose st sub i).req k = alGet st.req k := by
  unfold setEose
  split
  · rfl
  · split
    · rfl
    · simp [alGet_alSet_ne _ _ _ _ hk]

theorem sendEose_frame_ne (st : MergeSt) (i : Nat) (sub k : String) (hk : k ≠ sub) :
    alGet (sendEose st i sub).1.req k = alGet st.req k := by
  have a := allEose_frame_ne st sub k hk
  have b := setEose_frame_ne (allEose st sub).1 sub k i hk
  have c := allEose_frame_ne (setEose (allEose st sub).1 sub i) sub k hk
  unfold sendEose
  split
  · exact a
  · split <;> rw [c, b, a]

theorem sendable_frame_ne (st : MergeSt) (i : Nat) (sub : String) (e : Event) (k : String) (hk : k ≠ sub) :
    alGet (sendableEvent st i sub e).1.req k = alGet st.req k := by
  have a := allEose_frame_ne st sub k hk
  unfold sendableEvent
  split
  · exact a
  · split
    · exact a
    · split
      · exact a
      · simp [alGet_alSet_ne _ _ _ _ hk, a]

theorem J_of_eq (filters : List Filter) (sub : String) (st st' : MergeSt) (F : List Event)
    (h : alGet st'.req sub = alGet st.req sub) (hj : J filters sub st F) : J filters sub st' F := by
  simpa [J, h] using hj

theorem J_erased (filters : List Filter) (sub : String) (st st' : MergeSt) (F : List Event)
    (h : alGet st'.req sub = none) (hj : J filters sub st F) : J filters sub st' F := by
  simp only [J, h]
  simp only [J] at hj
  cases hr : alGet st.req sub with
  | none => simpa [hr] using hj
  | some r => rw [hr] at hj; exact hj.1.good

theorem J_client (filters : List Filter) (sub : String) (st : MergeSt) (F : List Event) (m : ClientMsg)
    (hnr : isReqFor sub (.client m) = false) (hj : J filters sub st F) : J filters sub (st.client m) F := by
  cases m with
  | event e => exact J_of_eq _ _ st _ F (by simp [MergeSt.client]) hj
  | req s fs =>
    have : sub ≠ s := by intro h; subst h; simp [isReqFor] at hnr
    exact J_of_eq _ _ st _ F (by simp [MergeSt.client, alGet_alSet_ne _ _ _ _ this]) hj
  | close s =>
    by_cases h : sub = s
    · subst h; exact J_erased _ _ st _ F (by simp [MergeSt.client, alGet_alErase_self]) hj
    · exact J_of_eq _ _ st _ F (by simp [MergeSt.client, alGet_alErase_ne _ _ _ h]) hj
  | count s fs => exact J_of_eq _ _ st _ F (by simp [MergeSt.client]) hj
  | auth e => exact J_of_eq _ _ st _ F (by simp [MergeSt.client]) hj

theorem J_child (filters : List Filter) (hwf : ∀ f ∈ filters, f.WF) (sub : String) (st : MergeSt) (F : List Event)
    (i : Nat) (msg : ServerMsg) (hne : ∀ s e, msg = .event s e → C02.TagsNonEmpty e) (hj : J filters sub st F) :
    J filters sub (st.child i msg).1 (F ++ fwdOf sub st i msg) := by
  unfold fwdOf
  cases msg with
  | ok id acc pfx t => simpa using J_of_eq _ _ st _ F (by simp [MergeSt.child, sendOK_req]) hj
  | count s c ap => simpa using J_of_eq _ _ st _ F (by simp [MergeSt.child, sendCount_req]) hj
  | notice m => simpa [MergeSt.child] using hj
  | closed a b c => simpa [MergeSt.child] using hj
  | auth c => simpa [MergeSt.child] using hj
  | eose s =>
    simp only [List.append_nil]
    by_cases hs : sub = s
    · subst hs
      cases hr : alGet st.req sub with
      | none =>
        simp only [MergeSt.child, eose_without_state st i sub hr]; exact hj
      | some r =>
        have hj' := hj
        simp only [J, hr] at hj'
        obtain ⟨hinv, hopen⟩ := hj'
        simp only [MergeSt.child, eose_with_state st i sub r hr hopen]
        by_cases hc : (r.eose.set i true).contains false = true
        · simp only [hc, if_true, J, alGet_alSet_self]
          exact ⟨⟨hinv.fs, hinv.empty, hinv.ge, hinv.seen, hinv.sorted, hinv.distinct, hinv.matched, hinv.count, hinv.lim⟩, by first | exact hc | trivial⟩
        · simp only [hc, Bool.false_eq_true, if_false, J, alGet_alErase_self]
          exact hinv.good
    · exact J_of_eq _ _ st _ F (by simp only [MergeSt.child]; exact sendEose_frame_ne st i s sub hs) hj
  | event s e =>
    by_cases hs : s = sub
    · subst hs
      cases hr : alGet st.req s with
      | none =>
        have : st.child i (.event s e) = (st, .ok (some (.event s e))) := event_after_eose st i s e hr
        simp only [this, hr, Option.isSome_none, Bool.false_eq_true, false_and, and_false, if_false, List.append_nil]
        exact hj
      | some r =>
        have hj' := hj
        simp only [J, hr] at hj'
        obtain ⟨hinv, hopen⟩ := hj'
        have ha : allEose st s = (st, false) := by rw [allEose_present st s r hr]; simp only [hopen, if_true]
        simp only [hr, Option.isSome_some, true_and]
        by_cases hce : Gen.evChildEose (Gen.reqIsEose r.eose.length (r.eose.getD i false)) = true
        · -- the child has sent its EOSE already: dropped, nothing changes
          have hst : (sendableEvent st i s e) = (st, .ok false) := by
            unfold sendableEvent
            simp only [ha, Gen.evAllEose, Bool.false_eq_true, if_false, hr, hce, if_true]
          simp only [MergeSt.child, hst]
          simp only [Res.ok.injEq, Bool.false_eq_true, if_false]
          simpa using hj
        · obtain ⟨b, hb, hinv'⟩ := subStep_inv filters r F e hinv hwf (hne s e rfl)
          have hst : (sendableEvent st i s e) =
              ({ st with req := alSet st.req s (subStep r e).1 }, (subStep r e).2) := by
            unfold sendableEvent
            simp only [ha, Gen.evAllEose, Bool.false_eq_true, if_false, hr, hce]
          simp only [MergeSt.child, hst, hb]
          cases b with
          | true =>
            simp only [if_true, and_self]
            simp only [J, alGet_alSet_self]
            exact ⟨by simpa using hinv', by
              -- the flags are untouched by `subStep`
              have : (subStep r e).1.eose = r.eose := by
                unfold subStep
                rcases ordStep_spec r e with ⟨ho, _⟩ | ⟨r1, ho, _, _, h1e, _⟩
                · simp [ho]
                · simp only [ho]
                  split
                  · exact h1e
                  · split
                    · exact h1e
                    · split
                      · rfl
                      · exact h1e
              rw [this]; exact hopen⟩
          | false =>
            simp only [Bool.false_eq_true, if_false, Res.ok.injEq, Option.some_ne_none, reduceCtorEq, and_false,
              List.append_nil]
            simp only [J, alGet_alSet_self]
            exact ⟨by simpa using hinv', by
              have : (subStep r e).1.eose = r.eose := by
                unfold subStep
                rcases ordStep_spec r e with ⟨ho, _⟩ | ⟨r1, ho, _, _, h1e, _⟩
                · simp [ho]
                · simp only [ho]
                  split
                  · exact h1e
                  · split
                    · exact h1e
                    · split
                      · rfl
                      · exact h1e
              rw [this]; exact hopen⟩
    · have hne' : ¬ (s = sub ∧ (alGet st.req sub).isSome = true ∧ (st.child i (.event s e)).2 = .ok (some (.event s e))) :=
        fun h => hs h.1
      simp only [hne', if_false, List.append_nil]
      exact J_of_eq _ _ st _ F (by simp only [MergeSt.child]; exact sendable_frame_ne st i s e sub (fun h => hs h.symm)) hj

/-- **C08, the stream before the EOSE — every trace.**  From any state satisfying the invariant (in particular
    right after a REQ, `J_after_req`), over any trace that does not re-issue `sub`: the events forwarded for `sub`
    while its state exists, appended to those forwarded before, are in non-increasing created_at order, pairwise
    distinct, all match the REQ's filters, and for a single filter with limit `n` number at most `n`. -/
theorem pre_eose_stream (filters : List Filter) (hwf : ∀ f ∈ filters, f.WF) (sub : String) (tr : List MStep) :
    ∀ (st : MergeSt) (F : List Event), J filters sub st F → (∀ s ∈ tr, isReqFor sub s = false) →
      (∀ i s e, MStep.child i (.event s e) ∈ tr → C02.TagsNonEmpty e) →
      Good filters (F ++ preFwd sub st tr) := by
  induction tr with
  | nil =>
    intro st F hj _ _
    simp only [preFwd, List.append_nil]
    simp only [J] at hj
    cases hr : alGet st.req sub with
    | none => simpa [hr] using hj
    | some r => rw [hr] at hj; exact hj.1.good
  | cons s tr ih =>
    intro st F hj hnr hne
    have hnr' : ∀ s ∈ tr, isReqFor sub s = false := fun s hs => hnr s (List.mem_cons_of_mem _ hs)
    have hne' : ∀ i s e, MStep.child i (.event s e) ∈ tr → C02.TagsNonEmpty e :=
      fun i s e h => hne i s e (List.mem_cons_of_mem _ h)
    cases s with
    | client m =>
      simp only [preFwd]
      exact ih _ F (J_client filters sub st F m (hnr _ (by simp)) hj) hnr' hne'
    | child i msg =>
      simp only [preFwd]
      have hj' := J_child filters hwf sub st F i msg (fun s e h => hne i s e (by simp [h])) hj
      have := ih _ _ hj' hnr' hne'
      rw [List.append_assoc] at this
      exact this

/-- right after a REQ the invariant holds with nothing forwarded -/
theorem J_after_req (st : MergeSt) (sub : String) (fs : List Filter) (hn : 0 < st.n) :
    J fs sub (st.client (.req sub fs)) [] := by
  obtain ⟨r, hr, he, hopen, hl, hs, hm⟩ := req_opens st sub fs hn
  simp only [J, hr]
  refine ⟨⟨by simp [hm, newMatchers, List.map_map, Function.comp_def], fun _ => rfl, by simp, by simp, by simp, by simp,
    by simp, ?_, by simp⟩, hopen⟩
  intro m0 hm0
  rw [hm] at hm0
  cases fs with
  | nil => simp [newMatchers] at hm0
  | cons f rest =>
    cases rest with
    | cons g gs => simp [newMatchers] at hm0
    | nil => simp [newMatchers] at hm0; subst hm0; rfl

/-- **C08, from the REQ on.** -/
theorem pre_eose_stream_from_req (st : MergeSt) (hn : 0 < st.n) (sub : String) (fs : List Filter)
    (hwf : ∀ f ∈ fs, f.WF) (tr : List MStep) (hnr : ∀ s ∈ tr, isReqFor sub s = false)
    (hne : ∀ i s e, MStep.child i (.event s e) ∈ tr → C02.TagsNonEmpty e) :
    Good fs (preFwd sub (st.client (.req sub fs)) tr) := by
  simpa using pre_eose_stream fs hwf sub tr _ [] (J_after_req st sub fs hn) hnr hne

/-! non-vacuity: the trace of C08's example; two events are forwarded before the EOSE -/
example : preFwd "s" ({ n := 2 } : MergeSt) exTrace = [ev "a" 20, ev "c" 10] := by decide

end Moc.C08
