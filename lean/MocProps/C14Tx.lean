import MocModel.SqlTx
import MocProps.C14

/-!
  C14, the transaction at the level of single driver calls (`MocModel/SqlTx.lean`).

  * `execEvent_work` / `execBatch_work`: the statements issued for an event, one by one, build exactly the tables of
    `Db.insertOne` — the per-event model every C06 / C14 theorem is about (a refinement: statement level ⊑ event level);
  * `tx_all_or_nothing`: under EVERY fault plan `insertEvents` either reports success and the database is the
    one of the whole batch, or reports an error and the database is unchanged;
  * `tx_ok_no_fault_reached`: success is reported only if no issued call failed (what seed C14-E breaks);
  * `retry_all_or_nothing`, `retry_then_success`: the same through `bulkInsertWithRetry`, and any later successful
    insertion of the batch gives the tables of a single success (with `insertBatch_idempotent`).
-/

set_option linter.unusedSimpArgs false
set_option linter.unusedVariables false

namespace Moc.C14
open Moc

/-! ### rows -/

theorem exec_some {fails : Nat → Bool} {t t' : Tx} {f : Db → Db} (h : t.exec fails f = some t') :
    fails (t.k + 1) = false ∧ t' = { work := f t.work, k := t.k + 1 } := by
  unfold Tx.exec at h
  by_cases hf : fails (t.k + 1) = true
  · rw [if_pos hf] at h; cases h
  · rw [if_neg hf] at h
    exact ⟨by simpa using hf, (Option.some.inj h).symm⟩

theorem execRows_some {α} {fails : Nat → Bool} (f : Db → α → Db) :
    ∀ (xs : List α) (t t' : Tx), Tx.execRows fails f t xs = some t' →
      t'.work = xs.foldl f t.work ∧ t'.k = t.k + xs.length ∧
      (∀ k, t.k < k → k ≤ t'.k → fails k = false) ∧
      Tx.execRows (fun _ => false) f t xs = some t' := by
  intro xs
  induction xs with
  | nil =>
    intro t t' h
    simp only [Tx.execRows] at h
    cases h
    exact ⟨rfl, rfl, fun k h1 h2 => by omega, rfl⟩
  | cons x xs ih =>
    intro t t' h
    simp only [Tx.execRows] at h
    cases he : t.exec fails (fun d => f d x) with
    | none => rw [he] at h; cases h
    | some t1 =>
      rw [he] at h
      obtain ⟨hf, ht1⟩ := exec_some he
      obtain ⟨hw, hk, hfs, hnf⟩ := ih t1 t' h
      subst ht1
      refine ⟨by simpa using hw, by simp at hk ⊢; omega, ?_, ?_⟩
      · intro k h1 h2
        by_cases hk1 : k = t.k + 1
        · rw [hk1]; exact hf
        · exact hfs k (by simp; omega) h2
      · simp only [Tx.execRows, Tx.exec, Bool.false_eq_true, if_false]
        exact hnf

theorem foldl_addTag (xs : List (String × Int × SKey)) (db : Db) :
    xs.foldl Db.addTag db = { db with tags := db.tags ++ xs } := by
  induction xs generalizing db with
  | nil => simp
  | cons x xs ih => simp only [List.foldl_cons, ih, Db.addTag, List.append_assoc, List.singleton_append]

theorem foldl_addDelKey (xs : List (SKey × String)) (db : Db) :
    xs.foldl Db.addDelKey db = { db with delKeys := xs.foldl insertSet db.delKeys } := by
  induction xs generalizing db with
  | nil => simp
  | cons x xs ih => simp only [List.foldl_cons, ih, Db.addDelKey]

theorem foldl_addDelId (xs : List (String × String)) (db : Db) :
    xs.foldl Db.addDelId db = { db with delIds := xs.foldl insertSet db.delIds } := by
  induction xs generalizing db with
  | nil => simp
  | cons x xs ih => simp only [List.foldl_cons, ih, Db.addDelId]

/-! ### one event: the statement sequence builds `insertOne` -/

/-- the statements after an upsert that affected a row, all executed -/
def afterUpsert (db : Db) (p : Params) : Db :=
  p.delIds.foldl Db.addDelId (p.delKeys.foldl Db.addDelKey (p.tagRows.foldl Db.addTag (db.addPayload p)))

theorem upsert_then_rest (db : Db) (p : Params) :
    (if (db.upsert p).2 then afterUpsert (db.upsert p).1 p else (db.upsert p).1) = db.insertOne p := by
  unfold Db.upsert Db.insertOne afterUpsert
  cases hf : db.events.find? (fun r => r.key == p.row.key) with
  | none =>
    simp only [if_true, foldl_addTag, foldl_addDelKey, foldl_addDelId, Db.addPayload]
  | some old =>
    by_cases hr : upsertReplaces old p.row = true
    · simp only [hr, if_true, foldl_addTag, foldl_addDelKey, foldl_addDelId, Db.addPayload]
    · have hr' : upsertReplaces old p.row = false := by simpa using hr
      simp only [hr', Bool.false_eq_true, if_false]

theorem execEvent_some {fails : Nat → Bool} {t t' : Tx} {p : Params} (h : t.execEvent fails p = some t') :
    t'.work = t.work.insertOne p ∧ t.k < t'.k ∧
    (∀ k, t.k < k → k ≤ t'.k → fails k = false) ∧
    t.execEvent (fun _ => false) p = some t' := by
  unfold Tx.execEvent at h
  by_cases hf : fails (t.k + 1) = true
  · rw [if_pos hf] at h; cases h
  · have hf' : fails (t.k + 1) = false := by simpa using hf
    rw [if_neg hf] at h
    simp only at h
    have hins := upsert_then_rest t.work p
    cases ha : (t.work.upsert p).2 with
    | false =>
      rw [ha] at h hins
      simp only [Bool.not_false, if_true] at h
      cases h
      simp only [Bool.false_eq_true, if_false] at hins
      refine ⟨hins, by simp, ?_, ?_⟩
      · intro k h1 h2
        have : k = t.k + 1 := by simp at h2; omega
        rw [this]; exact hf'
      · simp only [Tx.execEvent, Bool.false_eq_true, if_false, ha, Bool.not_false, if_true]
    | true =>
      rw [ha] at h hins
      simp only [Bool.not_true, Bool.false_eq_true, if_false, if_true] at h hins
      cases h2 : Tx.exec fails { work := (t.work.upsert p).1, k := t.k + 1 } (fun db => db.addPayload p) with
      | none => rw [h2] at h; cases h
      | some t2 =>
        rw [h2] at h
        simp only at h
        obtain ⟨hf2, ht2⟩ := exec_some h2
        cases h3 : Tx.execRows fails Db.addTag t2 p.tagRows with
        | none => rw [h3] at h; cases h
        | some t3 =>
          rw [h3] at h
          simp only at h
          obtain ⟨hw3, hk3, hfs3, hn3⟩ := execRows_some Db.addTag _ _ _ h3
          cases h4 : Tx.execRows fails Db.addDelKey t3 p.delKeys with
          | none => rw [h4] at h; cases h
          | some t4 =>
            rw [h4] at h
            simp only at h
            obtain ⟨hw4, hk4, hfs4, hn4⟩ := execRows_some Db.addDelKey _ _ _ h4
            obtain ⟨hw5, hk5, hfs5, hn5⟩ := execRows_some Db.addDelId _ _ _ h
            subst ht2
            simp only at hw3 hk3 hfs3 hfs4 hfs5 hf2
            refine ⟨?_, by omega, ?_, ?_⟩
            · rw [hw5, hw4, hw3, ← hins]; rfl
            · intro k h1 h2'
              by_cases e1 : k = t.k + 1
              · rw [e1]; exact hf'
              · by_cases e2 : k = t.k + 1 + 1
                · rw [e2]; exact hf2
                · by_cases e3 : k ≤ t3.k
                  · exact hfs3 k (by omega) e3
                  · by_cases e4 : k ≤ t4.k
                    · exact hfs4 k (by omega) e4
                    · exact hfs5 k (by omega) h2'
            · simp only [Tx.execEvent, Bool.false_eq_true, if_false, ha, Bool.not_true, Tx.exec]
              rw [hn3]; simp only
              rw [hn4]; simp only
              exact hn5

theorem execEvent_work {fails : Nat → Bool} {t t' : Tx} {p : Params} (h : t.execEvent fails p = some t') :
    t'.work = t.work.insertOne p := (execEvent_some h).1

/-! ### the batch -/

theorem execBatch_some {fails : Nat → Bool} :
    ∀ (ps : List Params) (t t' : Tx), Tx.execBatch fails t ps = some t' →
      t'.work = ps.foldl Db.insertOne t.work ∧ t.k ≤ t'.k ∧
      (∀ k, t.k < k → k ≤ t'.k → fails k = false) ∧
      Tx.execBatch (fun _ => false) t ps = some t' := by
  intro ps
  induction ps with
  | nil =>
    intro t t' h
    simp only [Tx.execBatch] at h
    cases h
    exact ⟨rfl, Nat.le_refl _, fun k h1 h2 => by omega, rfl⟩
  | cons p ps ih =>
    intro t t' h
    simp only [Tx.execBatch] at h
    cases he : t.execEvent fails p with
    | none => rw [he] at h; cases h
    | some t1 =>
      rw [he] at h
      obtain ⟨hw1, hk1, hfs1, hn1⟩ := execEvent_some he
      obtain ⟨hw, hk, hfs, hn⟩ := ih t1 t' h
      refine ⟨by rw [hw, hw1]; rfl, by omega, ?_, ?_⟩
      · intro k h1 h2
        by_cases e : k ≤ t1.k
        · exact hfs1 k h1 e
        · exact hfs k (by omega) h2
      · simp only [Tx.execBatch, hn1]
        exact hn

theorem execBatch_work {fails : Nat → Bool} {ps : List Params} {t t' : Tx} (h : Tx.execBatch fails t ps = some t') :
    t'.work = ps.foldl Db.insertOne t.work := (execBatch_some ps t t' h).1

/-- without faults every statement is issued: the batch runs to the end -/
theorem execRows_nofault {α} (f : Db → α → Db) (xs : List α) (t : Tx) :
    ∃ t', Tx.execRows (fun _ => false) f t xs = some t' := by
  induction xs generalizing t with
  | nil => exact ⟨t, rfl⟩
  | cons x xs ih =>
    simp only [Tx.execRows, Tx.exec, Bool.false_eq_true, if_false]
    exact ih _

theorem execEvent_nofault (t : Tx) (p : Params) : ∃ t', t.execEvent (fun _ => false) p = some t' := by
  unfold Tx.execEvent
  simp only [Bool.false_eq_true, if_false, Tx.exec]
  cases (t.work.upsert p).2 with
  | false => exact ⟨_, rfl⟩
  | true =>
    simp only [Bool.not_true, Bool.false_eq_true, if_false]
    obtain ⟨t3, h3⟩ := execRows_nofault Db.addTag p.tagRows
      { work := (t.work.upsert p).1.addPayload p, k := t.k + 1 + 1 }
    rw [h3]
    obtain ⟨t4, h4⟩ := execRows_nofault Db.addDelKey p.delKeys t3
    simp only
    rw [h4]
    exact execRows_nofault Db.addDelId p.delIds t4

theorem execBatch_nofault (ps : List Params) (t : Tx) : ∃ t', Tx.execBatch (fun _ => false) t ps = some t' := by
  induction ps generalizing t with
  | nil => exact ⟨t, rfl⟩
  | cons p ps ih =>
    obtain ⟨t1, h1⟩ := execEvent_nofault t p
    simp only [Tx.execBatch, h1]
    exact ih t1

/-! ### `insertEvents` -/

/-- **C14, atomicity of the function's own logic**: under every fault plan, either success is reported and the
    database is that of the whole batch, or an error is reported and the database is unchanged. -/
theorem tx_all_or_nothing (db : Db) (fails : Nat → Bool) (evs : List Event) :
    ((db.insertEventsTx fails evs).ok = true ∧ (db.insertEventsTx fails evs).db = db.insertBatch evs) ∨
    ((db.insertEventsTx fails evs).ok = false ∧ (db.insertEventsTx fails evs).db = db) := by
  unfold Db.insertEventsTx
  simp only
  by_cases hp : (evs.filterMap buildParams).isEmpty = true
  · rw [if_pos hp]
    left
    refine ⟨rfl, ?_⟩
    have : evs.filterMap buildParams = [] := by simpa using hp
    simp [Db.insertBatch, this]
  · rw [if_neg hp]
    by_cases hq : (!prologueOk fails) = true
    · rw [if_pos hq]; right; exact ⟨rfl, rfl⟩
    · rw [if_neg hq]
      cases he : Tx.execBatch fails { work := db, k := 6 } (evs.filterMap buildParams) with
      | none => right; exact ⟨rfl, rfl⟩
      | some t =>
        simp only
        by_cases hc : fails (t.k + 1) = true
        · rw [if_pos hc]; right; exact ⟨rfl, rfl⟩
        · rw [if_neg hc]; left
          exact ⟨rfl, by rw [execBatch_work he]; rfl⟩

/-- **success is reported only if no issued call failed**: when `nil` is returned, every one of the
    `calls` driver calls of a fault-free run was made and none of them was failed by the plan -/
theorem tx_ok_no_fault_reached (db : Db) (fails : Nat → Bool) (evs : List Event)
    (hok : (db.insertEventsTx fails evs).ok = true) :
    ∀ k, 1 ≤ k → k ≤ db.calls evs → fails k = false := by
  unfold Db.insertEventsTx at hok
  unfold Db.calls
  simp only at hok ⊢
  by_cases hp : (evs.filterMap buildParams).isEmpty = true
  · rw [if_pos hp]; intro k h1 h2; omega
  · rw [if_neg hp] at hok ⊢
    by_cases hq : (!prologueOk fails) = true
    · rw [if_pos hq] at hok; cases hok
    · rw [if_neg hq] at hok
      cases he : Tx.execBatch fails { work := db, k := 6 } (evs.filterMap buildParams) with
      | none => rw [he] at hok; cases hok
      | some t =>
        rw [he] at hok
        simp only at hok
        by_cases hc : fails (t.k + 1) = true
        · rw [if_pos hc] at hok; cases hok
        · obtain ⟨_, hk, hfs, hn⟩ := execBatch_some _ _ _ he
          rw [hn]
          simp only
          intro k h1 h2
          have hpro : prologueOk fails = true := by simpa using hq
          unfold prologueOk at hpro
          simp only [Bool.not_eq_true', Bool.or_eq_false_iff] at hpro
          by_cases e6 : k ≤ 6
          · have : k = 1 ∨ k = 2 ∨ k = 3 ∨ k = 4 ∨ k = 5 ∨ k = 6 := by omega
            rcases this with e | e | e | e | e | e <;> subst e <;> simp [hpro]
          · by_cases ec : k = t.k + 1
            · rw [ec]; simpa using hc
            · exact hfs k (by simp; omega) (by omega)

/-- without faults the function reports success and the database is that of the batch -/
theorem tx_no_fault (db : Db) (evs : List Event) :
    db.insertEventsTx (fun _ => false) evs = { db := db.insertBatch evs, ok := true } := by
  have h := tx_all_or_nothing db (fun _ => false) evs
  have hok : (db.insertEventsTx (fun _ => false) evs).ok = true := by
    unfold Db.insertEventsTx
    simp only [prologueOk, Bool.or_self, Bool.not_false, Bool.not_true, Bool.false_eq_true, if_false]
    by_cases hp : (evs.filterMap buildParams).isEmpty = true
    · rw [if_pos hp]
    · rw [if_neg hp]
      obtain ⟨t, ht⟩ := execBatch_nofault (evs.filterMap buildParams) { work := db, k := 6 }
      rw [ht]
  rcases h with ⟨_, h2⟩ | ⟨h1, _⟩
  · cases hr : db.insertEventsTx (fun _ => false) evs with
    | mk d o => rw [hr] at hok h2; simp only at hok h2; rw [hok, h2]
  · rw [hok] at h1; cases h1

/-! ### retries -/

/-- **through `bulkInsertWithRetry`**: whatever the fault plans of the attempts, either success is reported and
    the database is that of one insertion of the batch, or failure is reported and it is unchanged -/
theorem retry_all_or_nothing (db : Db) (plans : List (Nat → Bool)) (evs : List Event) :
    ((db.insertWithRetry plans evs).ok = true ∧ (db.insertWithRetry plans evs).db = db.insertBatch evs) ∨
    ((db.insertWithRetry plans evs).ok = false ∧ (db.insertWithRetry plans evs).db = db) := by
  induction plans with
  | nil => right; exact ⟨rfl, rfl⟩
  | cons f rest ih =>
    unfold Db.insertWithRetry
    simp only
    rcases tx_all_or_nothing db f evs with ⟨h1, h2⟩ | ⟨h1, h2⟩
    · rw [if_pos h1]; left; exact ⟨h1, h2⟩
    · have : ¬ (db.insertEventsTx f evs).ok = true := by rw [h1]; simp
      rw [if_neg this, h2]
      exact ih

/-- any sequence of attempts (failed or not, whole retry rounds included) followed by one successful insertion
    leaves the tables of a single success — with `insertBatch_idempotent` for the attempts that had succeeded -/
theorem retry_then_success (db : Db) (plans : List (Nat → Bool)) (evs : List Event)
    (h : Coherent (db.events ++ (evs.filterMap buildParams).map (·.row))) :
    ((db.insertWithRetry plans evs).db.insertEventsTx (fun _ => false) evs).db = db.insertBatch evs := by
  rw [tx_no_fault]
  simp only
  rcases retry_all_or_nothing db plans evs with ⟨_, h2⟩ | ⟨_, h2⟩
  · rw [h2]; exact insertBatch_idempotent db evs h
  · rw [h2]

/-- **a stored version — visible or hidden by a deletion request — keeps every older or equally old version of its
    address out**: the upsert looks at the `events` row only, tombstones play no part.  (A reopen is the identity, so
    this holds across restarts: what seed C14-H breaks by physically removing hidden rows at start-up.) -/
theorem older_version_never_stored (db : Db) (p : Params) (old : ERow)
    (h : db.events.find? (fun r => r.key == p.row.key) = some old) (hle : p.row.createdAt ≤ old.createdAt) :
    db.insertOne p = db := by
  unfold Db.insertOne
  rw [h]
  have : upsertReplaces old p.row = false := by
    unfold upsertReplaces
    have : ¬ old.createdAt < p.row.createdAt := by omega
    simp [this]
  simp [this]

/-- the same event again (same id) is never written either -/
theorem same_id_never_rewritten (db : Db) (p : Params) (old : ERow)
    (h : db.events.find? (fun r => r.key == p.row.key) = some old) (hid : old.id = p.row.id) :
    db.insertOne p = db := by
  unfold Db.insertOne
  rw [h]
  have : upsertReplaces old p.row = false := by
    unfold upsertReplaces
    simp [hid]
  simp [this]

/-! non-vacuity: the example batch of C14.lean needs 18 driver calls; failing the 9th reports an error and leaves
    the database empty, failing none stores the batch -/
example : ({} : Db).calls exBatch = 18 := by decide
example : (({} : Db).insertEventsTx (fun k => k == 9) exBatch).ok = false := by decide
example : (({} : Db).insertEventsTx (fun k => k == 18) exBatch).ok = false := by decide   -- Commit fails
example : (({} : Db).insertEventsTx (fun k => k == 19) exBatch).ok = true := by decide

end Moc.C14
