/-
  C02 — Filter matching equals the NIP-01 predicate for every event and filter.

  Property theorems only (helper lemmas are in C02Lemmas.lean).  The model `matchOne`,
  `matchAny`, `limitMatchAll`, `doneAll` (MocModel/Matcher.lean) mirrors event_matcher.go;
  its comparisons are regenerated from the Go source into `Moc.Gen` on every run.
-/
import MocProps.C02Lemmas

namespace Moc.C02
open Moc

/-- events behind the admission gate have no empty tag (`validTag`) -/
def TagsNonEmpty (e : Event) : Prop := ∀ t ∈ e.tags, t ≠ []

/-- **C02, single filter.** For every well-formed filter (distinct `#x` names — what a Go map
    is) and every event without an empty tag, `Match` returns exactly the NIP-01 predicate. -/
theorem matchOne_eq_spec (f : Filter) (e : Event) (hwf : f.WF) (hne : TagsNonEmpty e) :
    matchOne f e = .ok (nip01MatchB f e) := by
  have hI := ids_step f e
  have hK := kinds_step f e
  have hA := authors_step f e
  have hS := since_step f e
  have hU := until_step f e
  obtain ⟨r, hr, hT⟩ := tags_step f e hwf hne
  unfold matchOne nip01MatchB
  rw [hI, hK, hA, hS, hU]
  simp only [hr]
  rw [hT]
  simp only [Gen.matchFinal]
  generalize listedOr true f.ids e.id = a
  generalize listedOr true f.kinds e.kind = b
  generalize listedOr true f.authors e.pubkey = c
  generalize tagsOkB f.tags e = d
  generalize sinceOkB f.since e.createdAt = s
  generalize untilOkB f.until_ e.createdAt = u
  cases a <;> cases b <;> cases c <;> cases d <;> cases s <;> cases u <;> rfl

/-- the excluded point: an empty tag makes `Match` panic (`tag[0]`), as the Go code does.
    `Event.Valid` rejects such events, so they never reach a matcher behind the gate. -/
theorem matchOne_panics_on_empty_tag :
    matchOne { tags := some [("e", ["x"])] }
      { id := "", pubkey := "", createdAt := 0, kind := 1, tags := [[]], content := "", sig := "" }
      = .panic := by decide

/-- **C02, Prop form.** -/
theorem matchOne_iff (f : Filter) (e : Event) (hwf : f.WF) (hne : TagsNonEmpty e) :
    matchOne f e = .ok true ↔ nip01Match f e := by
  rw [matchOne_eq_spec f e hwf hne, ← nip01MatchB_iff]
  constructor
  · intro h; injection h
  · intro h; rw [h]

/-- **C02, an empty list matches nothing** (each of the four list conditions). -/
theorem empty_list_matches_nothing (f : Filter) (e : Event)
    (h : f.ids = some [] ∨ f.authors = some [] ∨ f.kinds = some [] ∨
         (∃ l k, f.tags = some l ∧ (k, []) ∈ l)) :
    ¬ nip01Match f e := by
  rintro ⟨h1, h2, h3, h4, _, _⟩
  rcases h with h | h | h | ⟨l, k, hl, hk⟩
  · exact absurd (h1 _ h) (by simp)
  · exact absurd (h2 _ h) (by simp)
  · exact absurd (h3 _ h) (by simp)
  · obtain ⟨t, _, _, hv⟩ := h4 l hl _ hk
    exact absurd hv (by simp)

/-- **C02, absent conditions do not constrain**: the empty filter matches every event. -/
theorem empty_filter_matches_all (e : Event) : nip01Match {} e := by
  refine ⟨?_, ?_, ?_, ?_, ?_, ?_⟩ <;> intro _ h <;> cases h

/-- **C02, filter list = any member.** -/
theorem matchAny_eq_spec (fs : List Filter) (e : Event) (hwf : ∀ f ∈ fs, f.WF) (hne : TagsNonEmpty e) :
    matchAny fs e = .ok (nip01MatchAnyB fs e) := by
  induction fs with
  | nil => rfl
  | cons f fs ih =>
    have h1 := matchOne_eq_spec f e (hwf f (by simp)) hne
    have h2 := ih (fun g hg => hwf g (List.mem_cons_of_mem _ hg))
    simp only [matchAny, h1, h2, nip01MatchAnyB, List.any_cons]

theorem nip01MatchAnyB_iff (fs : List Filter) (e : Event) :
    nip01MatchAnyB fs e = true ↔ nip01MatchAny fs e := by
  simp [nip01MatchAnyB, nip01MatchAny, List.any_eq_true, nip01MatchB_iff]

/-! ### the limit-counting form -/

/-- feed a sequence of events to a list of limit matchers (`LimitMatch` on each) -/
def feed : List LMatcher → List Event → Res (List LMatcher)
  | ms, [] => .ok ms
  | ms, e :: es =>
    match limitMatchAll ms e with
    | .panic => .panic
    | .ok (_, ms') => feed ms' es

/-- number of events of `es` matching `f` -/
def matchCount (f : Filter) (es : List Event) : Nat := es.countP (nip01MatchB f ·)

theorem limitMatchAll_spec (ms : List LMatcher) (e : Event) (hwf : ∀ m ∈ ms, m.f.WF)
    (hne : TagsNonEmpty e) :
    limitMatchAll ms e = .ok (ms.any (fun m => nip01MatchB m.f e),
      ms.map fun m => { m with cnt := m.cnt + (if nip01MatchB m.f e then 1 else 0) }) := by
  induction ms with
  | nil => rfl
  | cons m ms ih =>
    have h1 := matchOne_eq_spec m.f e (hwf m (by simp)) hne
    have h2 := ih (fun g hg => hwf g (List.mem_cons_of_mem _ hg))
    simp only [limitMatchAll, LMatcher.limitMatch, h1, h2, Gen.limitMatchCounts, List.any_cons, List.map_cons]
    cases nip01MatchB m.f e <;> simp

/-- **C02, LimitMatch verdict** = NIP-01 predicate of the list, whatever was fed before. -/
theorem limitMatchAll_verdict (ms : List LMatcher) (e : Event) (hwf : ∀ m ∈ ms, m.f.WF)
    (hne : TagsNonEmpty e) :
    ∃ ms', limitMatchAll ms e = .ok (nip01MatchAnyB (ms.map (·.f)) e, ms') := by
  rw [limitMatchAll_spec ms e hwf hne]
  have : ms.any (fun m => nip01MatchB m.f e) = nip01MatchAnyB (ms.map (·.f)) e := by
    simp [nip01MatchAnyB, List.any_map, Function.comp_def]
  rw [this]
  exact ⟨_, rfl⟩

theorem feed_spec (ms : List LMatcher) (es : List Event) (hwf : ∀ m ∈ ms, m.f.WF)
    (hne : ∀ e ∈ es, TagsNonEmpty e) :
    feed ms es = .ok (ms.map fun m => { m with cnt := m.cnt + matchCount m.f es }) := by
  induction es generalizing ms with
  | nil => simp [feed, matchCount]
  | cons e es ih =>
    have h1 := limitMatchAll_spec ms e hwf (hne e (by simp))
    simp only [feed, h1]
    rw [ih]
    · simp only [List.map_map]
      congr 1
      apply List.map_congr_left
      intro m _
      simp only [Function.comp, matchCount, List.countP_cons]
      cases nip01MatchB m.f e <;> simp <;> omega
    · intro m hm
      obtain ⟨m0, hm0, rfl⟩ := List.mem_map.1 hm
      exact hwf m0 hm0
    · intro e' he'; exact hne e' (List.mem_cons_of_mem _ he')

/-- **C02, exhaustion.** After feeding any event sequence to a fresh limit-counting matcher
    list, `Done` holds exactly when every filter of the list has a limit and has matched at
    least that many events. -/
theorem done_iff (fs : List Filter) (es : List Event) (hwf : ∀ f ∈ fs, f.WF)
    (hne : ∀ e ∈ es, TagsNonEmpty e) :
    ∃ ms, feed (newMatchers fs) es = .ok ms ∧
      (doneAll ms = true ↔ ∀ f ∈ fs, ∃ n : Int, f.limit = some n ∧ n ≤ matchCount f es) := by
  have hwf' : ∀ m ∈ newMatchers fs, m.f.WF := by
    intro m hm
    obtain ⟨f, hf, rfl⟩ := List.mem_map.1 hm
    exact hwf f hf
  refine ⟨_, feed_spec (newMatchers fs) es hwf' hne, ?_⟩
  simp only [doneAll, newMatchers, List.map_map, List.all_map, List.all_eq_true, Function.comp,
    LMatcher.done, Gen.limitDone]
  constructor
  · intro h f hf
    have := h f hf
    cases hl : f.limit with
    | none => simp [hl] at this
    | some n => simp [hl] at this; exact ⟨n, rfl, by omega⟩
  · intro h f hf
    obtain ⟨n, hn, hle⟩ := h f hf
    simp [hn]; omega

/-- an empty filter list is exhausted at once (vacuous ∀) — `Done` of no matchers is true -/
theorem done_nil : doneAll (newMatchers []) = true := rfl

/-! ### non-vacuity: the hypotheses are met by concrete non-trivial values -/

def exFilter : Filter := { kinds := some [1, 7], tags := some [("e", ["aa", "bb"]), ("p", ["cc"])], since := some 10, limit := some 2 }
def exEvent : Event :=
  { id := "i1", pubkey := "pk", createdAt := 12, kind := 7,
    tags := [["e", "zz"], ["p", "cc", "relay"], ["e", "bb"], ["t"]], content := "", sig := "" }

example : exFilter.WF ∧ TagsNonEmpty exEvent ∧ matchOne exFilter exEvent = .ok true := by
  refine ⟨by decide, by unfold TagsNonEmpty; decide, by decide⟩

/-- the multi-filter folds and the counting step of the source are the ones the model follows (evaluation order
    included: no short-circuit skips a matcher's `LimitMatch`) -/
theorem matchers_source_pinned : matchersActualSource = matchersExpectedSource := by rfl

end Moc.C02
