/-
  C16, Dump/Restore: restoring the dump of any store that satisfies the invariants (every reachable one does) into
  a fresh store of the same capacity gives a store that answers every query as the original
  (`restore_dump`, `restore_dump_reachable`).  Each re-insertion just adds the event: it is not ephemeral, not
  blocked (a blocking entry would belong to a retained request naming it - impossible by C05's invariant), its key
  is fresh, a deletion request finds nothing to delete, and the capacity is not exceeded (`restore_step`).
-/
import MocProps.C05Inv
import MocProps.C03Find
import MocModel.Handlers
set_option linter.unusedSimpArgs false
set_option linter.unusedVariables false
namespace Moc.C16
open Moc Moc.CacheL Moc.C04 Moc.C05

/-- in a state satisfying the invariant no retained event is named by a retained request of its author -/
theorem inv2_never (C : Cache) (h : Inv2 C) (x d : Event) (hx : x ∈ C.evs) (hd : d ∈ C.evs) (h5 : d.kind = 5)
    (hp : d.pubkey = x.pubkey) (href : eventKey x ∈ k5Refs d ∨ x.id ∈ k5Refs d) : False := by
  have hnb := h.nb x hx
  have : Blocked C x = true := by
    rw [blocked_iff]
    rcases href with hr | hr
    · exact ⟨_, h.rc d hd h5 _ hr, Or.inl rfl, hp⟩
    · exact ⟨_, h.rc d hd h5 _ hr, Or.inr rfl, hp⟩
  rw [hnb] at this; cases this

/-- every registry entry belongs to a retained deletion request -/
def RegSound (s : Cache) : Prop :=
  ∀ t ∈ s.deleted, ∃ d ∈ s.evs, d.kind = 5 ∧ t.2.1 = d.pubkey ∧ t.1 ∈ k5Refs d

theorem delete_noop (c : Cache) (k p : String) (h : ∀ cand, c.lookup k = some cand → cand.pubkey ≠ p) :
    c.delete k p = c := by
  unfold Cache.delete
  cases hl : c.lookup k with
  | none => rfl
  | some cand =>
    have := h cand hl
    simp [Gen.deleteForeign, this]

/-- a deletion request that names nothing retained (of its author) changes nothing when processed -/
theorem deleteByKind5_noop (c : Cache) (e : Event) (hk : (c.evs.map eventKey).Nodup)
    (h : ∀ y ∈ c.evs, y.pubkey = e.pubkey → eventKey y ∉ k5Refs e ∧ y.id ∉ k5Refs e) :
    c.deleteByKind5 e = c := by
  rw [deleteByKind5_eq]
  have hstep : ∀ k ∈ k5Refs e, k5Step e.pubkey c k = c := by
    intro k hkr
    have h1 : c.delete k e.pubkey = c := by
      apply delete_noop
      intro cand hl hp
      have hm := lookup_mem c k cand hl
      exact (h cand hm.1 hp).1 (by rw [hm.2]; exact hkr)
    unfold k5Step
    rw [h1]
    -- the by-id loop
    have : ∀ (ys : List Event), (∀ y ∈ ys, y ∈ c.evs ∧ y.id = k) →
        ys.foldl (fun c y => c.delete (eventKey y) e.pubkey) c = c := by
      intro ys
      induction ys with
      | nil => intro _; rfl
      | cons y ys ih =>
        intro hy
        simp only [List.foldl_cons]
        have hy0 := hy y (by simp)
        have : c.delete (eventKey y) e.pubkey = c := by
          apply delete_noop
          intro cand hl hp
          have hc := lookup_own_key c y hy0.1 hk
          rw [hc] at hl; cases hl
          exact (h y hy0.1 hp).2 (by rw [hy0.2]; exact hkr)
        rw [this]
        exact ih (fun z hz => hy z (List.mem_cons_of_mem _ hz))
    apply this
    intro y hy
    have := List.mem_filter.1 hy
    exact ⟨this.1, by simpa using this.2⟩
  generalize hrefs : k5Refs e = refs at hstep
  clear hrefs
  induction refs with
  | nil => rfl
  | cons r rs ih =>
    simp only [List.foldl_cons]
    rw [hstep r (by simp)]
    exact ih (fun k hk' => hstep k (List.mem_cons_of_mem _ hk'))

/-- what holds of the store being rebuilt from a dump of `C`, after the events `P` have been added -/
structure RI (C s : Cache) (P : List Event) : Prop where
  cap : s.cap = C.cap
  mem : ∀ y, y ∈ s.evs ↔ y ∈ P
  sub : ∀ x ∈ P, x ∈ C.evs
  keys : (s.evs.map eventKey).Nodup
  reg : RegSound s

/-- adding the next dumped event to the store being rebuilt just adds it (and registers its references) -/
theorem restore_step (C : Cache) (h1 : Inv1 C) (h2 : Inv2 C) (s : Cache) (P : List Event) (x : Event)
    (hri : RI C s P) (hx : x ∈ C.evs) (hnew : x ∉ P) : RI C (s.add x).1 (P ++ [x]) := by
  have hneph : (eventType x.kind == EventType.ephemeral) = false := by
    have := h1.noEph x hx; simpa using this
  have hsub : ∀ y ∈ s.evs, y ∈ C.evs := fun y hy => hri.sub y ((hri.mem y).1 hy)
  have hkeys := hri.keys
  -- not blocked: a blocking entry would come from a retained request naming x
  have hnb : Gen.addBlocked (s.isDeleted (eventKey x) x.pubkey) (s.isDeleted x.id x.pubkey) = false := by
    cases hb : Blocked s x with
    | false => simpa [Blocked, Gen.addBlocked] using hb
    | true =>
      exfalso
      obtain ⟨t, ht, href, hpk⟩ := (blocked_iff s x).1 hb
      obtain ⟨d, hd, hd5, hdp, hdr⟩ := hri.reg t ht
      exact inv2_never C h2 x d hx (hsub d hd) hd5 (by rw [← hdp, hpk])
        (by rcases href with h' | h'
            · exact Or.inl (h' ▸ hdr)
            · exact Or.inr (h' ▸ hdr))
  have hfresh : s.lookup (eventKey x) = none := by
    cases hl : s.lookup (eventKey x) with
    | none => rfl
    | some y =>
      exfalso
      have hm := lookup_mem s _ y hl
      have hy := hsub y hm.1
      have hyx : y = x := by
        have a := lookup_own_key C y hy h1.keys
        have b := lookup_own_key C x hx h1.keys
        rw [hm.2] at a; rw [a] at b; exact Option.some.inj b
      subst hyx
      exact hnew ((hri.mem y).1 hm.1)
  unfold Cache.add
  simp only [hneph, Bool.false_eq_true, if_false, hnb, Cache.addEv, hfresh]
  -- the state after `addEv`
  have hk1 : (({ s with evs := x :: s.evs } : Cache).evs.map eventKey).Nodup := by
    simp only [List.map_cons, List.nodup_cons]
    exact ⟨fun hm => by
      obtain ⟨y, hy, hyk⟩ := List.mem_map.1 hm
      exact lookup_none s _ hfresh y hy hyk, hkeys⟩
  have hlen : ¬ (((x :: s.evs).length : Int) > s.cap) := by
    have h3 := h1.capOk
    rw [hri.cap]
    have hl : (x :: s.evs).length ≤ C.evs.length := by
      have hnd : (x :: s.evs).Nodup := by
        refine List.nodup_cons.2 ⟨fun hm => hnew ((hri.mem x).1 hm), ?_⟩
        exact C03.nodup_of_map_nodup eventKey _ hkeys
      have hss : ∀ y ∈ x :: s.evs, y ∈ C.evs := by
        intro y hy; rcases List.mem_cons.1 hy with rfl | hy
        · exact hx
        · exact hsub y hy
      exact List.Nodup.length_le_of_subset hnd hss
    omega
  by_cases h5 : Gen.addIsKind5 x.kind = true
  · have hk5 : x.kind = 5 := by simpa [Gen.addIsKind5] using h5
    simp only [h5, if_true]
    have hnoop : (({ s with evs := x :: s.evs } : Cache).addKind5 x).deleteByKind5 x =
        ({ s with evs := x :: s.evs } : Cache).addKind5 x := by
      apply deleteByKind5_noop _ x (by simpa [addKind5_evs] using hk1)
      intro y hy hp
      have hyC : y ∈ C.evs := by
        simp only [addKind5_evs, List.mem_cons] at hy
        rcases hy with rfl | hy
        · exact hx
        · exact hsub y hy
      constructor
      · intro hr; exact inv2_never C h2 y x hyC hx hk5 hp.symm (Or.inl hr)
      · intro hr; exact inv2_never C h2 y x hyC hx hk5 hp.symm (Or.inr hr)
    rw [hnoop]
    simp only [addKind5_evs, addKind5_cap, Gen.addOverCap, hlen, decide_false, Bool.false_eq_true, if_false]
    refine ⟨by simp [addKind5_cap, hri.cap], ?_, ?_, by simpa [addKind5_evs] using hk1, ?_⟩
    · intro y; simp only [addKind5_evs, List.mem_cons, List.mem_append, List.not_mem_nil, or_false, hri.mem y]
      exact ⟨fun h => h.symm, fun h => h.symm⟩
    · intro y hy; rcases List.mem_append.1 hy with hy | hy
      · exact hri.sub y hy
      · simp at hy; subst hy; exact hx
    · intro t ht
      rcases (addKind5_deleted_mem _ x t).1 ht with hold | ⟨hr, hp, _⟩
      · obtain ⟨d, hd, rest⟩ := hri.reg t hold
        exact ⟨d, by simp [addKind5_evs]; exact Or.inr hd, rest⟩
      · exact ⟨x, by simp [addKind5_evs], hk5, hp, hr⟩
  · simp only [h5, Bool.false_eq_true, if_false, Gen.addOverCap, hlen, decide_false]
    refine ⟨hri.cap, ?_, ?_, hk1, ?_⟩
    · intro y; simp only [List.mem_cons, List.mem_append, List.not_mem_nil, or_false, hri.mem y]
      exact ⟨fun h => h.symm, fun h => h.symm⟩
    · intro y hy; rcases List.mem_append.1 hy with hy | hy
      · exact hri.sub y hy
      · simp at hy; subst hy; exact hx
    · intro t ht
      obtain ⟨d, hd, rest⟩ := hri.reg t ht
      exact ⟨d, List.mem_cons_of_mem _ hd, rest⟩

theorem restore_fold (C : Cache) (h1 : Inv1 C) (h2 : Inv2 C) (L : List Event) :
    ∀ (s : Cache) (P : List Event), RI C s P → (∀ x ∈ L, x ∈ C.evs) → (P ++ L).Nodup →
      RI C (restore s L) (P ++ L) := by
  induction L with
  | nil => intro s P h _ _; simpa [restore] using h
  | cons x xs ih =>
    intro s P h hsub hnd
    simp only [restore, List.foldl_cons]
    have hx : x ∈ C.evs := hsub x (by simp)
    have hnew : x ∉ P := by
      intro hp
      have := (List.nodup_append.1 hnd).2.2 x hp x (by simp)
      exact this rfl
    have hstep := restore_step C h1 h2 s P x h hx hnew
    have := ih (s.add x).1 (P ++ [x]) hstep (fun y hy => hsub y (List.mem_cons_of_mem _ hy)) (by simpa using hnd)
    simpa [restore] using this

/-- **C16, Dump then Restore is lossless — every store, every query.**  Let `C` be any store satisfying the
    invariants (every reachable store does: `restore_dump_reachable`), with injective ids and non-empty tags.
    Restoring its dump into a fresh store of the same capacity gives a store that answers every list of
    well-formed filters exactly as `C` does. -/
theorem restore_dump (C : Cache) (h1 : Inv1 C) (h2 : Inv2 C) (hc : C03.StoreOK C)
    (perm : List Event → List Event) (hperm : ∀ l, (perm l).Perm l) (L : List Event)
    (hdump : dump C = .ok L) (fs : List Filter) (hfs : ∀ f ∈ fs, C03.FilterOK f) :
    (restore { cap := C.cap } L).find perm fs = C.find perm fs := by
  -- the dump lists every retained event once
  have hemptyF : C03.FilterOK ({} : Filter) := ⟨(by intro l hl; cases hl), (by intro l hl; cases hl)⟩
  obtain ⟨R, hR, hRs, hRm⟩ := C03.find_eq_spec C hc id (fun l => List.Perm.refl l) [{}] (by simpa using hemptyF)
  have hLR : L = R := by
    simp only [dump] at hdump; rw [hR] at hdump; exact (Res.ok.inj hdump).symm
  subst hLR
  have hmemL : ∀ x, x ∈ L ↔ x ∈ C.evs := by
    intro x
    rw [hRm x]
    simp only [List.mem_singleton, exists_eq_left, C03.topOf, Option.map_none, C03.takeOpt]
    rw [C03.sortOrd_mem C.evs hc.inj _ (fun y hy => (List.mem_filter.1 hy).1)]
    simp [nip01MatchB, listedOr, tagsOkB, sinceOkB, untilOkB]
  have hndL : L.Nodup := (C03.sorted_desc L hRs).2
  have hri := restore_fold C h1 h2 L { cap := C.cap } []
    ⟨rfl, (by simp), (by simp), (by simp), (by intro t ht; cases ht)⟩ (fun x hx => (hmemL x).1 hx) (by simpa using hndL)
  simp only [List.nil_append] at hri
  -- the rebuilt store holds the same events
  have hmem : ∀ x, x ∈ (restore { cap := C.cap } L).evs ↔ x ∈ C.evs := fun x => (hri.mem x).trans (hmemL x)
  have hc' : C03.StoreOK (restore { cap := C.cap } L) :=
    ⟨fun a ha b hb h => hc.inj a ((hmem a).1 ha) b ((hmem b).1 hb) h,
     C03.nodup_of_map_nodup eventKey _ hri.keys, fun e he => hc.tags e ((hmem e).1 he)⟩
  obtain ⟨A, hA, hAs, hAm⟩ := C03.find_eq_spec _ hc' perm hperm fs hfs
  obtain ⟨B, hB, hBs, hBm⟩ := C03.find_eq_spec C hc perm hperm fs hfs
  rw [hA, hB]
  congr 1
  apply C03.sorted_ext A B hAs hBs
  intro x
  rw [hAm, hBm]
  -- what a filter contributes depends only on the set of retained events
  have htop : ∀ f, C03.topOf (restore { cap := C.cap } L) f = C03.topOf C f := by
    intro f
    simp only [C03.topOf]
    congr 1
    apply C03.sorted_ext _ _ (C03.sortOrd_sorted _) (C03.sortOrd_sorted _)
    intro y
    rw [C03.sortOrd_mem C.evs hc.inj _ (fun z hz => (hmem z).1 (List.mem_filter.1 hz).1),
      C03.sortOrd_mem C.evs hc.inj _ (fun z hz => (List.mem_filter.1 hz).1)]
    simp only [List.mem_filter, hmem y]
  simp only [htop]

/-- every store reached by insertions satisfies the premises -/
theorem restore_dump_reachable (cap : Int) (hcap : 0 ≤ cap) (es : List Event) (hinj : C03.IdInj es)
    (hne : ∀ e ∈ es, C02.TagsNonEmpty e) (perm : List Event → List Event) (hperm : ∀ l, (perm l).Perm l)
    (L : List Event) (hdump : dump (C04.run { cap := cap } es) = .ok L) (fs : List Filter)
    (hfs : ∀ f ∈ fs, C03.FilterOK f) :
    (restore { cap := cap } L).find perm fs = (C04.run { cap := cap } es).find perm fs := by
  have h1 := C04.retention_all_histories cap hcap es
  have := restore_dump (C04.run { cap := cap } es) h1.1 (C05.run_inv2 { cap := cap } es (C05.inv2_empty cap))
    (C03.storeOK_reachable cap hcap es hinj hne) perm hperm L hdump fs hfs
  rw [h1.2] at this
  exact this

end Moc.C16
