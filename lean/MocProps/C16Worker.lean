/-
  C16 (SQLite handler) / C14: the insert worker neither loses nor invents anything.

  For every sequence of arrivals and ticks, every batch size and whatever the LRU forgets: once the worker has
  flushed (a tick with nothing further arriving, or the end of its context) the tables are exactly those of ONE
  batch holding every event that was handed over, in arrival order — the skipped repeats included, because
  re-inserting an event that was inserted before changes nothing.  Together with C06 (`candidates_eq`,
  `answers_accepted`) this is what the REQ clause of the SQLite handler is judged by.
  Hypothesis: ids determine events (what authenticity provides), as `Coherent` over the rows.
-/
import MocModel.SqlWorker
import MocProps.C06Tables

namespace Moc.C16W
open Moc Moc.C14 Moc.C06

/-- the loop's statements are the ones the model follows -/
theorem worker_source_pinned : workerActualSource = workerExpectedSource := by rfl

theorem received_append (a b : List WStep) : received (a ++ b) = received a ++ received b := by
  induction a with
  | nil => rfl
  | cons s r ih => cases s <;> simp [received, ih]

theorem coherent_subset (rows rows' : List ERow) (h : Coherent rows) (hs : ∀ r ∈ rows', r ∈ rows) : Coherent rows' :=
  fun r hr r' hr' hid => h r (hs r hr) r' (hs r' hr') hid

/-- inserting again an event that is already part of the batch changes nothing -/
theorem insert_again_noop (db : Db) (evs : List Event) (e : Event) (he : e ∈ evs)
    (hcoh : Coherent (db.events ++ (evs.filterMap buildParams).map (·.row))) :
    db.insertBatch (evs ++ [e]) = db.insertBatch evs := by
  rw [← batch_split_irrelevant]
  cases hp : buildParams e with
  | none => simp [Db.insertBatch, hp]
  | some p =>
    have hmem : p ∈ evs.filterMap buildParams := List.mem_filterMap.2 ⟨e, he, hp⟩
    have hs := fold_settled _ db hcoh p hmem
    simp only [Db.insertBatch, List.filterMap_cons, hp, List.filterMap_nil, List.foldl_cons, List.foldl_nil]
    exact settled_noop _ p hs

/-- what the worker maintains: flushing now would give the tables of one batch of everything received so far, and
    every remembered id belongs to a received event -/
structure WInv (db0 : Db) (all : List Event) (w : Worker) : Prop where
  tables : w.db.insertBatch w.pending = db0.insertBatch all
  seen : ∀ id ∈ w.seen, ∃ e ∈ all, e.id = id

theorem flush_tables (w : Worker) : w.flush.db.insertBatch w.flush.pending = w.db.insertBatch w.pending := by
  simp [Worker.flush, Db.insertBatch]

theorem step_inv (db0 : Db) (all : List Event) (w : Worker) (s : WStep) (h : WInv db0 all w)
    (hinj : ∀ a ∈ all ++ received [s], ∀ b ∈ all ++ received [s], a.id = b.id → a = b)
    (hcoh : Coherent (db0.events ++ ((all ++ received [s]).filterMap buildParams).map (·.row))) :
    WInv db0 (all ++ received [s]) (w.step s) := by
  cases s with
  | tick =>
    simp only [received, List.append_nil, Worker.step, Worker.tick]
    split
    · exact ⟨by rw [flush_tables]; exact h.tables, h.seen⟩
    · exact h
  | recv e =>
    simp only [received, Worker.step, Worker.recv]
    by_cases hs : w.seen.contains e.id = true
    · -- a remembered id: the event is one of those received before
      simp only [hs, if_true]
      obtain ⟨e', he', hid⟩ := h.seen e.id (by simpa using hs)
      have heq : e' = e := hinj e' (by simp [he']) e (by simp [received]) hid
      subst heq
      constructor
      · simp only []
        rw [h.tables]
        exact (insert_again_noop db0 all e' he' (coherent_subset _ _ hcoh (by
          intro r hr
          simp only [List.mem_append, List.mem_map, List.mem_filterMap] at hr ⊢
          rcases hr with hr | ⟨p, ⟨x, hx, hxp⟩, hpr⟩
          · exact Or.inl hr
          · exact Or.inr ⟨p, ⟨x, Or.inl hx, hxp⟩, hpr⟩))).symm
      · intro id hid'
        simp only [List.mem_cons] at hid'
        rcases hid' with rfl | hid'
        · exact ⟨e', by simp [he'], rfl⟩
        · obtain ⟨x, hx, hxi⟩ := h.seen id (List.mem_of_mem_erase hid')
          exact ⟨x, by simp [hx], hxi⟩
    · simp only [hs, Bool.false_eq_true, if_false]
      have htab : (w.db.insertBatch (w.pending ++ [e])) = db0.insertBatch (all ++ [e]) := by
        rw [← batch_split_irrelevant, h.tables, batch_split_irrelevant]
      have hseen : ∀ id ∈ (e.id :: w.seen).take (Gen.workerLruSize w.num).toNat, ∃ x ∈ all ++ [e], x.id = id := by
        intro id hid'
        rcases List.mem_cons.1 (List.mem_of_mem_take hid') with rfl | hid'
        · exact ⟨e, by simp, rfl⟩
        · obtain ⟨x, hx, hxi⟩ := h.seen id hid'
          exact ⟨x, by simp [hx], hxi⟩
      split
      · exact ⟨by rw [flush_tables]; exact htab, hseen⟩
      · exact ⟨htab, hseen⟩

/-- **the worker = one batch.**  From a fresh worker over any database, after any arrivals and ticks and the final
    flush: the tables are those of a single batch of everything handed over, in order. -/
theorem worker_equals_one_batch (num : Nat) (db0 : Db) (steps : List WStep)
    (hinj : ∀ a ∈ received steps, ∀ b ∈ received steps, a.id = b.id → a = b)
    (hcoh : Coherent (db0.events ++ ((received steps).filterMap buildParams).map (·.row))) :
    ((Worker.run { num := num, db := db0 } steps).stop).db = db0.insertBatch (received steps) ∧
    ((Worker.run { num := num, db := db0 } steps).stop).pending = [] := by
  -- generalise over the steps done so far
  have key : ∀ (todo done : List WStep) (w : Worker), done ++ todo = steps → WInv db0 (received done) w →
      WInv db0 (received steps) (Worker.run w todo) := by
    intro todo
    induction todo with
    | nil => intro done w hd hw; simp only [List.append_nil] at hd; subst hd; exact hw
    | cons s rest ih =>
      intro done w hd hw
      have hsub : ∀ x ∈ received done ++ received [s], x ∈ received steps := by
        intro x hx
        rw [← hd, show done ++ s :: rest = (done ++ [s]) ++ rest by simp, received_append, received_append]
        exact List.mem_append.2 (Or.inl hx)
      have hw' := step_inv db0 (received done) w s hw
        (fun a ha b hb => hinj a (hsub a ha) b (hsub b hb))
        (coherent_subset _ _ hcoh (by
          intro r hr
          simp only [List.mem_append, List.mem_map, List.mem_filterMap] at hr ⊢
          rcases hr with hr | ⟨p, ⟨x, hx, hxp⟩, hpr⟩
          · exact Or.inl hr
          · exact Or.inr ⟨p, ⟨x, hsub x (List.mem_append.2 hx), hxp⟩, hpr⟩))
      rw [← received_append] at hw'
      exact ih (done ++ [s]) (w.step s) (by simp [hd]) hw'
  have hfin := key steps [] { num := num, db := db0 } rfl ⟨by simp [Db.insertBatch, received], by simp⟩
  generalize Worker.run { num := num, db := db0 } steps = w at hfin
  simp only [Worker.stop]
  split
  · exact ⟨by rw [← hfin.tables]; simp [Worker.flush], rfl⟩
  · rename_i hemp
    have : w.pending = [] := by
      simp only [Gen.workerStopFlush, decide_eq_true_eq] at hemp
      exact List.length_eq_zero_iff.1 (by omega)
    refine ⟨?_, this⟩
    rw [← hfin.tables, this]; simp [Db.insertBatch]

/-! non-vacuity: batch size 2, a repeat that the LRU still remembers, a tick in between -/
def exE (id : String) (t : Int) : Event := { id := id, pubkey := "aa", createdAt := t, kind := 1, tags := [], content := "", sig := "" }
def exSteps : List WStep := [.recv (exE "01" 5), .tick, .recv (exE "02" 6), .recv (exE "01" 5), .recv (exE "03" 7)]

example : (received exSteps).map (·.id) = ["01", "02", "01", "03"] := by decide
example : ((Worker.run { num := 2 } exSteps).stop.db.events.map (·.id)) = ((Db.insertBatch {} (received exSteps)).events.map (·.id)) := by decide

end Moc.C16W
