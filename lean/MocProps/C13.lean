/-
  C13 — Sessions always terminate and release everything when the peer goes away.

  Partial, and the weakest of the set: that a goroutine parked at a guarded site really wakes up, and that nothing
  else parks, is a property of the Go runtime which the cut-point sweeps validate.  What Lean contributes:
    * over the list of EVERY channel operation of the session code, regenerated from the source, each one has a
      `<-ctx.Done()` alternative, or is non-blocking, or is one of the enumerated operations that cannot park
      (`sites_guarded_or_justified`) — a new unguarded send or receive breaks this theorem;
    * the write deadline applies whenever a send timeout is configured, whatever the ping interval is
      (`write_deadline_applies`, from the regenerated guard of `sendMsgWithTimeout`);
    * nothing of the session remains in the registry after `UnsubscribeAll` (C07's model) and a session's end
      subtracts exactly its open subscriptions from the gauges (C19's model).
-/
import MocModel.Sites
import MocProps.C07
import MocProps.C19

set_option linter.unusedSimpArgs false
set_option linter.unusedVariables false

namespace Moc.C13
open Moc

/-- **C13, every blocking site is guarded or cannot park.**  The unguarded channel operations of the session
    code are exactly the justified ones, occurrence by occurrence. -/
theorem sites_guarded_or_justified :
    unguardedSites.map (fun s => (s.1, s.2.2.2)) = justified.map (fun j => (j.1, j.2.1)) := by decide

/-- every justification is one of the four recorded kinds -/
theorem justifications_known :
    ∀ j ∈ justified, j.2.2 = "buffered" ∨ j.2.2 = "token" ∨ j.2.2 = "join" ∨ j.2.2 = "closed" := by decide

/-- every other site has the cancellation alternative (or never blocks) -/
theorem guarded_sites_leave_on_cancel (s : Site) (h : s ∈ allSites) (hg : s.guarded = true) :
    s.2.2.1 = "ctxDone" ∨ s.2.2.1 = "default" := by
  simpa [Site.guarded] using hg

/-- the session loops themselves — the receive loops and forwarders of SimpleHandler, RouterHandler, the merge
    session and the middleware plumbing, the relay's write loop — are all selects with the cancel alternative -/
theorem session_loops_guarded :
    (allSites.filter (fun s => s.2.1 == "select")).all Site.guarded = true := by decide

/-- **C13, the write deadline.**  A configured send timeout bounds every write, for every ping interval
    (including ping disabled). -/
theorem write_deadline_applies (pingDuration sendTimeout : Int) (h : 0 < sendTimeout) :
    writeBounded pingDuration sendTimeout = true := by
  simp [writeBounded, Gen.relaySendMsgGuard, h]

/-- disconnect removes the connection's whole registry entry (C07's model) -/
theorem registry_released (st : RSt) (c : Conn) : nGet (st.step (.unsubAll c)).1.reg c = none :=
  (C07.unsubAll_removes_everything st c).1

/-- the prediction the sweeps are compared with -/
theorem session_end_clean : sessionEnd = { returned := true, leftover := 0, registry := 0, conn := 0, req := 0 } := rfl

end Moc.C13
