/-
  C17 — Limit middlewares reject exactly the offending message, pass the rest as is.

  Model: MocModel/Middleware.lean (conditions and texts regenerated from handler.go).
  Spec:  MocModel/Spec/Mw.lean (`withinLimit`, `isRejectionFor`).
-/
import MocModel.Spec.Mw
import MocProps.C02

set_option linter.unusedSimpArgs false

namespace Moc.C17
open Moc

/-- allow/deny lists are ordinary filter lists; messages carry gate-checked events -/
def MsgOk : ClientMsg → Prop
  | .event e => C02.TagsNonEmpty e
  | _ => True

def MwOk : Mw → Prop
  | .allow fs => ∀ f ∈ fs, f.WF
  | .deny fs => ∀ f ∈ fs, f.WF
  | _ => True

theorem matchB_eq (fs : List Filter) (e : Event) (hwf : ∀ f ∈ fs, f.WF) (hne : C02.TagsNonEmpty e) :
    matchB fs e = nip01MatchAnyB fs e := by
  unfold matchB
  rw [C02.matchAny_eq_spec fs e hwf hne]

theorem gt_eq_not_le (a b : Int) : decide (a > b) = !decide (a ≤ b) := by
  by_cases h : a ≤ b
  · have : ¬ a > b := by omega
    simp [h, this]
  · have : a > b := by omega
    simp [h, this]

theorem lt_eq_not_le (a b : Int) : decide (a < b) = !decide (b ≤ a) := by
  by_cases h : b ≤ a
  · have : ¬ a < b := by omega
    simp [h, this]
  · have : a < b := by omega
    simp [h, this]

/-- every regenerated rejection condition is the negation of the corresponding `withinLimit` clause -/
theorem gen_conditions :
    (∀ a b, Gen.maxFiltersReq a b = !decide (a ≤ b)) ∧ (∀ a b, Gen.maxFiltersCount a b = !decide (a ≤ b)) ∧
    (∀ a b, Gen.maxSubIDReq a b = !decide (a ≤ b)) ∧ (∀ a b, Gen.maxSubIDCount a b = !decide (a ≤ b)) ∧
    (∀ a b, Gen.maxEventTags a b = !decide (a ≤ b)) ∧ (∀ a b, Gen.maxContentLen a b = !decide (a ≤ b)) ∧
    (∀ now c l, Gen.createdAtLower now c l = !decide (now - c * 1000000000 ≤ l * 1000000000)) ∧
    (∀ now c u, Gen.createdAtUpper now c u = !decide (c * 1000000000 - now ≤ u * 1000000000)) ∧
    (∀ now c a, Gen.eventCreatedAtOld now c a = !decide (a ≤ c * 1000000000 - now)) ∧
    (∀ now c b, Gen.eventCreatedAtFar now c b = !decide (c * 1000000000 - now ≤ b)) ∧
    (∀ m, Gen.allowReject m = !m) ∧ (∀ m, Gen.denyReject m = m) ∧
    (∀ p l n, Gen.maxLimitReq p l n = (p && !decide (l ≤ n))) ∧ (∀ p l n, Gen.maxLimitCount p l n = (p && !decide (l ≤ n))) := by
  refine ⟨?_, ?_, ?_, ?_, ?_, ?_, ?_, ?_, ?_, ?_, ?_, ?_, ?_, ?_⟩ <;> intros <;>
    simp only [Gen.maxFiltersReq, Gen.maxFiltersCount, Gen.maxSubIDReq, Gen.maxSubIDCount, Gen.maxEventTags,
      Gen.maxContentLen, Gen.createdAtLower, Gen.createdAtUpper, Gen.eventCreatedAtOld, Gen.eventCreatedAtFar,
      Gen.allowReject, Gen.denyReject, Gen.maxLimitReq, Gen.maxLimitCount, gt_eq_not_le, lt_eq_not_le, Bool.not_not]

theorem any_limit_iff (fs : List Filter) (n : Int) (g : Bool → Int → Int → Bool)
    (hg : ∀ p l n, g p l n = (p && !decide (l ≤ n))) :
    (fs.any fun f => g f.limit.isSome (f.limit.getD 0) n) = !(fs.all fun f => limitLe f.limit n) := by
  simp only [hg]
  induction fs with
  | nil => rfl
  | cons f fs ih =>
    simp only [List.any_cons, List.all_cons, ih, Bool.not_and]
    congr 1
    cases h : f.limit <;> simp [limitLe]

/-- **C17, per middleware.** A stateless limit middleware forwards a client message, unchanged and
    with unchanged state, exactly when the message respects the limit; otherwise it forwards nothing
    and answers that message with the protocol's rejection for its type (OK false with the event's id,
    CLOSED with the subscription id). For every limit value, every message, every clock reading. -/
theorem client_decision (mw : Mw) (st : MwSt) (now : Int) (m : ClientMsg)
    (hs : mw.stateless = true) (hmw : MwOk mw) (hm : MsgOk m) :
    (withinLimit mw now m = true → mw.client st now m = (st, .fwd m)) ∧
    (withinLimit mw now m = false → ∃ r, mw.client st now m = (st, .reject r) ∧ isRejectionFor m r = true) := by
  obtain ⟨g1, g2, g3, g4, g5, g6, g7, g8, g9, g10, g11, g12, g13, g14⟩ := gen_conditions
  cases mw <;> cases m <;>
    simp only [Mw.stateless, Bool.false_eq_true] at hs <;>
    simp only [Mw.client, withinLimit, g1, g2, g3, g4, g5, g6, g7, g8, g9, g10, g11, g12,
      any_limit_iff _ _ _ g13, any_limit_iff _ _ _ g14] <;>
    (try rw [matchB_eq _ _ hmw hm]) <;>
    (constructor <;> intro h <;> simp_all [isRejectionFor]) <;>
    (try ((repeat' split) <;> simp_all [isRejectionFor] <;> (try omega)))

/-- **C17, server side.** Every limit middleware passes every server message unchanged. -/
theorem server_passthrough (mw : Mw) (st : MwSt) (m : ServerMsg) (hs : mw.stateless = true) :
    mw.server st m = (st, some m) := by
  cases mw <;> simp [Mw.stateless] at hs <;> rfl

/-- all states in a stack unchanged -/
def allStateless (stack : List (Mw × MwSt)) : Prop := ∀ p ∈ stack, p.1.stateless = true ∧ MwOk p.1

/-- **C17, stacks (forward).** A stack of limit middlewares (any number, any order) forwards a message
    unchanged exactly when every member accepts it … -/
theorem chain_forwards (stack : List (Mw × MwSt)) (now : Int) (m : ClientMsg)
    (hs : allStateless stack) (hm : MsgOk m)
    (hall : ∀ p ∈ stack, withinLimit p.1 now m = true) :
    chainClient stack now m = (stack, .fwd m) := by
  induction stack with
  | nil => rfl
  | cons p rest ih =>
    obtain ⟨mw, st⟩ := p
    have h1 := (client_decision mw st now m (hs (mw, st) (by simp)).1 (hs (mw, st) (by simp)).2 hm).1
      (hall (mw, st) (by simp))
    have h2 := ih (fun q hq => hs q (List.mem_cons_of_mem _ hq)) (fun q hq => hall q (List.mem_cons_of_mem _ hq))
    simp only [chainClient, h1, h2]

/-- … **and otherwise** the reply is the rejection of the OUTERMOST member that rejects, nothing is
    forwarded, and no state changes. -/
theorem chain_rejects (pre : List (Mw × MwSt)) (mw : Mw) (st : MwSt) (post : List (Mw × MwSt))
    (now : Int) (m : ClientMsg) (hs : allStateless (pre ++ (mw, st) :: post)) (hm : MsgOk m)
    (hpre : ∀ p ∈ pre, withinLimit p.1 now m = true) (hrej : withinLimit mw now m = false) :
    ∃ r, chainClient (pre ++ (mw, st) :: post) now m = (pre ++ (mw, st) :: post, .reply (some r)) ∧
      mw.client st now m = (st, .reject r) ∧ isRejectionFor m r = true := by
  induction pre with
  | nil =>
    obtain ⟨r, hr, hrr⟩ := (client_decision mw st now m (hs (mw, st) (by simp)).1 (hs (mw, st) (by simp)).2 hm).2 hrej
    exact ⟨r, by simp [chainClient, hr], hr, hrr⟩
  | cons p pre ih =>
    obtain ⟨mw0, st0⟩ := p
    have hs0 := hs (mw0, st0) (by simp)
    have h1 := (client_decision mw0 st0 now m hs0.1 hs0.2 hm).1 (hpre (mw0, st0) (by simp))
    obtain ⟨r, hr, hrc, hrr⟩ := ih (fun q hq => hs q (by simp at hq ⊢; exact Or.inr hq))
      (fun q hq => hpre q (List.mem_cons_of_mem _ hq))
    refine ⟨r, ?_, hrc, hrr⟩
    simp only [List.cons_append, chainClient, h1, hr, server_passthrough mw0 st0 r hs0.1]

/-- **C17, server messages through a stack** pass unchanged (and in order: one at a time, no state). -/
theorem chain_server_passthrough (stack : List (Mw × MwSt)) (m : ServerMsg) (hs : allStateless stack) :
    chainServer stack m = (stack, some m) := by
  induction stack with
  | nil => rfl
  | cons p rest ih =>
    obtain ⟨mw, st⟩ := p
    simp only [chainServer, ih (fun q hq => hs q (List.mem_cons_of_mem _ hq)),
      server_passthrough mw st m (hs (mw, st) (by simp)).1]

/-! ### NIP-11 chain -/

/-- the regenerated source text of `BuildMiddlewareFromNIP11` is the text `buildFromNip11` translates
    (guards `v != 0`, the field read by each guard, the constructor it wraps with, their order, and the
    nil / missing-limitation early return) -/
theorem nip11_source_pinned : nip11ActualSource = nip11ExpectedSource := by decide

/-- **C17, NIP-11: no document or no limitation block ⇒ the chain is the identity.** -/
theorem nip11_no_limitation_is_identity (now : Int) (m : ClientMsg) (s : ServerMsg) :
    buildFromNip11 none = [] ∧ buildFromNip11 (some none) = [] ∧
    chainClient (freshStack (buildFromNip11 (some none))) now m = ([], .fwd m) ∧
    chainServer (freshStack (buildFromNip11 (some none))) s = ([], some s) := by
  refine ⟨rfl, rfl, rfl, rfl⟩

/-- **C17, NIP-11: the chain consists of exactly the individual middlewares of the limits that are set**
    (a limit of 0 = unset), `max_subscriptions` innermost. -/
theorem nip11_chain_members (l : Limitation) (mw : Mw) :
    mw ∈ buildFromNip11 (some (some l)) ↔
      (mw = .maxSubs l.maxSubscriptions ∧ l.maxSubscriptions ≠ 0) ∨
      (mw = .maxFilters l.maxFilters ∧ l.maxFilters ≠ 0) ∨
      (mw = .maxLimit l.maxLimit ∧ l.maxLimit ≠ 0) ∨
      (mw = .maxEventTags l.maxEventTags ∧ l.maxEventTags ≠ 0) ∨
      (mw = .maxContentLen l.maxContentLength ∧ l.maxContentLength ≠ 0) ∨
      (mw = .createdAtLower l.createdAtLowerLimit ∧ l.createdAtLowerLimit ≠ 0) ∨
      (mw = .createdAtUpper l.createdAtUpperLimit ∧ l.createdAtUpperLimit ≠ 0) := by
  simp only [buildFromNip11, List.mem_append, bne_iff_ne, ne_eq]
  constructor
  · intro h
    rcases h with (((((h | h) | h) | h) | h) | h) | h <;> split at h <;> simp at h <;> subst h <;> simp [*]
  · intro h
    rcases h with ⟨rfl, h⟩ | ⟨rfl, h⟩ | ⟨rfl, h⟩ | ⟨rfl, h⟩ | ⟨rfl, h⟩ | ⟨rfl, h⟩ | ⟨rfl, h⟩ <;> simp [h]

/-- **C17, NIP-11 without a subscription quota** behaves as the stack of the individual limit
    middlewares: forwards iff every set limit is respected. -/
theorem nip11_chain_forwards (l : Limitation) (hsub : l.maxSubscriptions = 0) (now : Int) (m : ClientMsg)
    (hm : MsgOk m)
    (hall : ∀ mw ∈ buildFromNip11 (some (some l)), withinLimit mw now m = true) :
    chainClient (freshStack (buildFromNip11 (some (some l)))) now m
      = (freshStack (buildFromNip11 (some (some l))), .fwd m) := by
  apply chain_forwards _ now m _ hm
  · intro p hp
    obtain ⟨mw, hmw, rfl⟩ := List.mem_map.1 hp
    exact hall mw hmw
  · intro p hp
    obtain ⟨mw, hmw, rfl⟩ := List.mem_map.1 hp
    rcases (nip11_chain_members l mw).1 hmw with ⟨rfl, h⟩ | ⟨rfl, _⟩ | ⟨rfl, _⟩ | ⟨rfl, _⟩ | ⟨rfl, _⟩ | ⟨rfl, _⟩ | ⟨rfl, _⟩
    · exact absurd hsub h
    all_goals exact ⟨rfl, trivial⟩

/-! ### non-vacuity -/

example : let st : List (Mw × MwSt) := freshStack [.maxFilters 2, .maxLimit 10]
    allStateless st ∧ (∀ p ∈ st, withinLimit p.1 0 (.req "s" [{ limit := some 5 }]) = true) := by
  refine ⟨by intro p hp; simp [freshStack] at hp; rcases hp with rfl | rfl <;> exact ⟨rfl, trivial⟩, by decide⟩

example : withinLimit (.maxFilters 1) 0 (.req "s" [{}, {}]) = false := by decide

end Moc.C17
