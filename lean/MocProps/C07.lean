/-
  C07 — Router: live events reach exactly the open matching subscriptions, once.

  Model: the labelled transition system of MocModel/Router.lean, one step per critical section of `safeMap`
  (`subscribe`, `unsubscribe`, `unsubAll`, `pubBegin`, `visit`, `pubEnd`, `deq`); the source text of the registry
  operations, of `safeMap`'s methods, of the non-blocking send and of the session loop is regenerated and pinned
  (`router_source_pinned`), `SendIfMatch`'s test is regenerated.

  The theorems hold for every state, hence for every interleaving of the steps:
    * a visit appends to the visited connection's queue exactly the messages `EVENT s e` for the subscriptions
      (s, filters) registered for it at that moment whose filters match in the sense of NIP-01, each once, in
      as far as the queue has room; other queues, the registry and the other publishes are untouched;
    * a publish visits every connection of the registry exactly once (`publish_queues`), so in a history in which
      every operation completes before the next starts each open matching subscription gets the event exactly
      once and nothing else gets it;
    * deliveries are dropped only against a full queue, pending ones are never removed or reordered;
    * whether a publisher's step is enabled does not depend on any queue: a subscriber that stops reading never
      delays publishers;
    * CLOSE / re-REQ / disconnect take effect in the registry at once.
-/
import MocModel.Router
import MocModel.Spec.Nip01
import MocProps.C02
import MocProps.MergeLemmas

set_option linter.unusedSimpArgs false
set_option linter.unusedVariables false

namespace Moc.C07
open Moc

theorem router_source_pinned : routerActualSource = routerExpectedSource := rfl

/-! ### association lists keyed by connection -/

theorem nGet_nSet_self {β} (l : List (Conn × β)) (k : Conn) (v : β) : nGet (nSet l k v) k = some v := by
  simp [nGet, nSet, List.lookup_cons]

theorem nGet_nErase_ne {β} (l : List (Conn × β)) (k k' : Conn) (h : k' ≠ k) : nGet (nErase l k) k' = nGet l k' := by
  induction l with
  | nil => rfl
  | cons p ps ih =>
    obtain ⟨a, b⟩ := p
    simp only [nErase, nGet, List.filter_cons] at ih ⊢
    by_cases hp : a = k
    · have : (k' == a) = false := by rw [hp]; simpa using h
      simp [hp, List.lookup_cons, ih]
      rw [hp] at this; simp [this]
    · by_cases hk : k' = a
      · simp [hp, List.lookup_cons, hk]
      · have : (k' == a) = false := by simpa using hk
        simp [hp, List.lookup_cons, this, ih]

theorem nGet_nErase_self {β} (l : List (Conn × β)) (k : Conn) : nGet (nErase l k) k = none := by
  induction l with
  | nil => rfl
  | cons p ps ih =>
    obtain ⟨a, b⟩ := p
    simp only [nErase, nGet, List.filter_cons] at ih ⊢
    by_cases hp : a = k
    · simp [hp, ih]
    · have : (k == a) = false := by simpa using (fun h : k = a => hp h.symm)
      simp [hp, List.lookup_cons, this, ih]

theorem nGet_nSet_ne {β} (l : List (Conn × β)) (k k' : Conn) (v : β) (h : k' ≠ k) :
    nGet (nSet l k v) k' = nGet l k' := by
  have h1 : (k' == k) = false := by simpa using h
  have := nGet_nErase_ne l k k' h
  simp only [nGet, nSet, nErase] at this ⊢
  simp [List.lookup_cons, h1, this]

/-! ### what a visit selects, and what the queue keeps -/

/-- **C07, match and label.**  The messages a visit tries to enqueue for a connection: one `EVENT s e`, labelled
    with its own subscription id, for every registered subscription whose filters match per NIP-01 — no other. -/
theorem matched_spec (subs : List (String × List Filter)) (e : Event)
    (hwf : ∀ p ∈ subs, ∀ f ∈ p.2, f.WF) (hne : C02.TagsNonEmpty e) :
    matched subs e = .ok (subs.filterMap fun p => if nip01MatchAnyB p.2 e then some (.event p.1 e) else none) := by
  induction subs with
  | nil => rfl
  | cons p ps ih =>
    obtain ⟨s, fs⟩ := p
    have h1 := C02.matchAny_eq_spec fs e (hwf (s, fs) (by simp)) hne
    have h2 := ih (fun q hq => hwf q (List.mem_cons_of_mem _ hq))
    simp only [matched, h1, h2, Gen.routerSends, List.filterMap_cons]
    cases nip01MatchAnyB fs e <;> simp

/-- **C07, the bounded queue.**  The non-blocking sends of one visit keep the pending messages as they are and
    append the new ones, in order, as far as there is room. -/
theorem enqueue_eq (buflen : Nat) (q ms : List ServerMsg) :
    enqueue buflen q ms = q ++ ms.take (buflen - q.length) := by
  induction ms generalizing q with
  | nil => simp [enqueue]
  | cons m ms ih =>
    simp only [enqueue]
    by_cases h : q.length < buflen
    · simp only [h, if_true, ih]
      have : buflen - q.length = (buflen - (q ++ [m]).length) + 1 := by simp; omega
      rw [this, List.take_succ_cons]
      simp
    · simp only [h, if_false, ih]
      have : buflen - q.length = 0 := by omega
      simp [this]

/-- nothing is dropped while there is room for everything -/
theorem enqueue_all (buflen : Nat) (q ms : List ServerMsg) (h : q.length + ms.length ≤ buflen) :
    enqueue buflen q ms = q ++ ms := by
  rw [enqueue_eq, List.take_of_length_le (by omega)]

/-- **C07, drops only beyond the buffer.**  If some delivery of a visit was dropped, the queue then holds
    `buflen` undelivered messages. -/
theorem enqueue_drop_only_when_full (buflen : Nat) (q ms : List ServerMsg) (hq : q.length ≤ buflen)
    (hdrop : (enqueue buflen q ms).length < q.length + ms.length) : (enqueue buflen q ms).length = buflen := by
  rw [enqueue_eq] at hdrop ⊢
  simp only [List.length_append, List.length_take] at hdrop ⊢
  omega

theorem enqueue_bounded (buflen : Nat) (q ms : List ServerMsg) (hq : q.length ≤ buflen) :
    (enqueue buflen q ms).length ≤ buflen := by
  rw [enqueue_eq]; simp only [List.length_append, List.length_take]; omega

/-- pending deliveries are never removed or reordered by later sends; a `deq` takes the oldest -/
theorem enqueue_prefix (buflen : Nat) (q ms : List ServerMsg) : q <+: enqueue buflen q ms := by
  rw [enqueue_eq]; exact List.prefix_append _ _

/-! ### one visit -/

/-- **C07, effect of a visit.** -/
theorem visit_effect (st : RSt) (p c : Conn) (pb : Pub) (ms : List ServerMsg)
    (hp : nGet st.pubs p = some pb) (hm : matched ((nGet st.reg c).getD []) pb.e = .ok ms) :
    let st' := (st.step (.visit p c)).1
    nGet st'.q c = some (enqueue st.buflen ((nGet st.q c).getD []) ms) ∧
    (∀ c', c' ≠ c → nGet st'.q c' = nGet st.q c') ∧ st'.reg = st.reg ∧ st'.buflen = st.buflen := by
  simp only [RSt.step, hp, hm]
  exact ⟨nGet_nSet_self _ _ _, fun c' h => nGet_nSet_ne _ _ _ _ h, trivial, trivial⟩

/-- **C07, only open matching subscriptions.**  Everything a visit adds to a queue is `EVENT s e` for a
    subscription `(s, fs)` registered for that connection at that moment with `fs` matching `e`; so a subscription
    that does not match, was closed or replaced before, or belongs to a connection without entry gets nothing. -/
theorem visit_adds_only_open_matching (st : RSt) (p c : Conn) (pb : Pub)
    (hp : nGet st.pubs p = some pb)
    (hwf : ∀ q ∈ (nGet st.reg c).getD [], ∀ f ∈ q.2, f.WF) (hne : C02.TagsNonEmpty pb.e) :
    ∃ added, nGet (st.step (.visit p c)).1.q c = some ((nGet st.q c).getD [] ++ added) ∧
      ∀ m ∈ added, ∃ s fs, (s, fs) ∈ (nGet st.reg c).getD [] ∧ m = .event s pb.e ∧ nip01MatchAny fs pb.e := by
  have hm := matched_spec ((nGet st.reg c).getD []) pb.e hwf hne
  obtain ⟨h1, _⟩ := visit_effect st p c pb _ hp hm
  refine ⟨_, by rw [h1, enqueue_eq], ?_⟩
  intro m hmem
  have hmem' := List.mem_of_mem_take hmem
  simp only [List.mem_filterMap] at hmem'
  obtain ⟨⟨s, fs⟩, hin, hsome⟩ := hmem'
  by_cases hb : nip01MatchAnyB fs pb.e = true
  · simp [hb] at hsome
    exact ⟨s, fs, hin, hsome.symm, (C02.nip01MatchAnyB_iff fs pb.e).1 hb⟩
  · simp [hb] at hsome

/-- **C07, every open matching subscription, once.**  With room in the queue, the visit adds exactly one message
    per registered matching subscription (the registry holds a subscription id at most once per connection). -/
theorem visit_delivers_all (st : RSt) (p c : Conn) (pb : Pub) (hp : nGet st.pubs p = some pb)
    (hwf : ∀ q ∈ (nGet st.reg c).getD [], ∀ f ∈ q.2, f.WF) (hne : C02.TagsNonEmpty pb.e)
    (hroom : ((nGet st.q c).getD []).length + ((nGet st.reg c).getD []).length ≤ st.buflen) :
    nGet (st.step (.visit p c)).1.q c = some ((nGet st.q c).getD [] ++
      ((nGet st.reg c).getD []).filterMap fun q => if nip01MatchAnyB q.2 pb.e then some (.event q.1 pb.e) else none) := by
  have hm := matched_spec ((nGet st.reg c).getD []) pb.e hwf hne
  obtain ⟨h1, _⟩ := visit_effect st p c pb _ hp hm
  rw [h1, enqueue_all]
  have := List.length_filterMap_le (fun q : String × List Filter => if nip01MatchAnyB q.2 pb.e then some (ServerMsg.event q.1 pb.e) else none)
    ((nGet st.reg c).getD [])
  omega

/-! ### the registry -/

/-- REQ: the subscription is registered at once, replacing one with the same id; others are untouched -/
theorem subscribe_registers (st : RSt) (c : Conn) (s : String) (fs : List Filter) :
    let st' := (st.step (.subscribe c s fs)).1
    (∃ subs, nGet st'.reg c = some subs ∧ alGet subs s = some fs ∧
      ∀ s', s' ≠ s → alGet subs s' = alGet ((nGet st.reg c).getD []) s') ∧
    (∀ c', c' ≠ c → nGet st'.reg c' = nGet st.reg c') ∧ st'.q = st.q := by
  simp only [RSt.step]
  refine ⟨⟨_, nGet_nSet_self _ _ _, alGet_alSet_self _ _ _, fun s' h => alGet_alSet_ne _ _ _ _ h⟩,
    fun c' h => nGet_nSet_ne _ _ _ _ h, trivial⟩

/-- CLOSE: the subscription is gone at once; the connection's other subscriptions stay -/
theorem unsubscribe_removes (st : RSt) (c : Conn) (s : String) :
    let st' := (st.step (.unsubscribe c s)).1
    alGet ((nGet st'.reg c).getD []) s = none ∧
    (∀ s', s' ≠ s → alGet ((nGet st'.reg c).getD []) s' = alGet ((nGet st.reg c).getD []) s') ∧
    (∀ c', c' ≠ c → nGet st'.reg c' = nGet st.reg c') := by
  simp only [RSt.step]
  cases h : nGet st.reg c with
  | none => simp [h, alGet]
  | some subs =>
    simp only [nGet_nSet_self, Option.getD_some]
    exact ⟨alGet_alErase_self _ _, fun s' hs => alGet_alErase_ne _ _ _ hs, fun c' hc => nGet_nSet_ne _ _ _ _ hc⟩

/-- disconnect: the whole entry is gone, so no later publish visits the connection -/
theorem unsubAll_removes_everything (st : RSt) (c : Conn) :
    nGet (st.step (.unsubAll c)).1.reg c = none ∧ c ∉ ((st.step (.unsubAll c)).1.reg.map (·.1)) := by
  simp only [RSt.step]
  refine ⟨nGet_nErase_self _ _, ?_⟩
  simp [nErase, List.mem_map, List.mem_filter]

/-- a publish fixes, when it begins, the connections it will visit: those with an entry at that moment -/
theorem pubBegin_todo (st : RSt) (p : Conn) (e : Event) :
    nGet (st.step (.pubBegin p e)).1.pubs p = some { e := e, todo := st.reg.map (·.1) } := by
  simp only [RSt.step]; exact nGet_nSet_self _ _ _

/-! ### publishers never wait for readers -/

/-- **C07, no back-pressure on publishers.**  Whether a step is enabled never depends on the queues, and every
    `visit` of a connection still to be visited is enabled: a subscriber that stops reading (its queue stays
    full) cannot delay a publisher; only its own deliveries are dropped (`enqueue_drop_only_when_full`). -/
theorem enabled_indep_queues (st : RSt) (q' : List (Conn × List ServerMsg)) (s : RStep) :
    ({ st with q := q' } : RSt).enabled s = st.enabled s := by
  cases s <;> rfl

theorem visit_enabled (st : RSt) (p c : Conn) (pb : Pub) (hp : nGet st.pubs p = some pb) (hc : c ∈ pb.todo) :
    st.enabled (.visit p c) = true := by
  simp [RSt.enabled, hp, hc]

/-- a visited connection leaves the to-do list: no connection is visited twice by one publish -/
theorem visit_once (st : RSt) (p c : Conn) (pb : Pub) (ms : List ServerMsg) (hp : nGet st.pubs p = some pb)
    (hm : matched ((nGet st.reg c).getD []) pb.e = .ok ms) :
    (st.step (.visit p c)).1.enabled (.visit p c) = false := by
  simp only [RSt.step, hp, hm, RSt.enabled, nGet_nSet_self]
  simp

/-! ### a whole publish, completed before anything else happens (the sequentialised histories) -/

/-- the messages owed to connection `c` for event `e` in state `st` -/
def owedTo (st : RSt) (c : Conn) (e : Event) : List ServerMsg :=
  ((nGet st.reg c).getD []).filterMap fun q => if nip01MatchAnyB q.2 e then some (.event q.1 e) else none

def RegWF (st : RSt) : Prop := ∀ c, ∀ q ∈ (nGet st.reg c).getD [], ∀ f ∈ q.2, f.WF

theorem go_spec (p : Conn) (e : Event) (cs : List Conn) (hnd : cs.Nodup) :
    ∀ st : RSt, RegWF st → C02.TagsNonEmpty e → (∃ pb, nGet st.pubs p = some pb ∧ pb.e = e) →
      (RSt.publish.go p st cs).2 = .ok () ∧
      (RSt.publish.go p st cs).1.reg = st.reg ∧ (RSt.publish.go p st cs).1.buflen = st.buflen ∧
      (∀ c, nGet (RSt.publish.go p st cs).1.q c =
        if c ∈ cs then some (enqueue st.buflen ((nGet st.q c).getD []) (owedTo st c e)) else nGet st.q c) := by
  induction cs with
  | nil => intro st _ _ _; simp [RSt.publish.go]
  | cons c cs ih =>
    intro st hwf hne ⟨pb, hp, he⟩
    have hm := matched_spec ((nGet st.reg c).getD []) pb.e (hwf c) (he ▸ hne)
    obtain ⟨hq, hothers, hreg, hbuf⟩ := visit_effect st p c pb _ hp hm
    have hstep : (st.step (.visit p c)).2 = .ok [] := by simp [RSt.step, hp, hm]
    have hpubs : ∃ pb', nGet (st.step (.visit p c)).1.pubs p = some pb' ∧ pb'.e = e := by
      simp only [RSt.step, hp, hm]
      exact ⟨_, nGet_nSet_self _ _ _, he⟩
    have hwf' : RegWF (st.step (.visit p c)).1 := by
      intro c'; rw [hreg]; exact hwf c'
    have hnd' := (List.nodup_cons.1 hnd)
    obtain ⟨r1, r2, r3, r4⟩ := ih hnd'.2 (st.step (.visit p c)).1 hwf' hne hpubs
    have hgo : RSt.publish.go p st (c :: cs) = RSt.publish.go p (st.step (.visit p c)).1 cs := by
      conv => lhs; unfold RSt.publish.go
      cases hs : st.step (.visit p c) with
      | mk st' r =>
        rw [hs] at hstep
        simp only [] at hstep
        subst hstep
        rfl
    rw [hgo]
    refine ⟨r1, by rw [r2, hreg], by rw [r3, hbuf], ?_⟩
    intro c'
    rw [r4 c']
    by_cases hc : c' = c
    · subst hc
      have : c' ∉ cs := hnd'.1
      simp [this, hq, he]
      rfl
    · have e1 : owedTo (st.step (.visit p c)).1 c' e = owedTo st c' e := by simp only [owedTo, hreg]
      simp only [List.mem_cons, hc, false_or, hothers c' hc, e1, hbuf]

/-- **C07, a completed publish delivers to exactly the open matching subscriptions, once each.**  In a state
    without publish in progress for `p`, after `publish p e` has run to completion every connection with an entry
    has, appended to its queue, one `EVENT s e` per registered subscription `(s, fs)` with `fs` matching `e`
    (as far as its buffer has room), and no other queue has changed. -/
theorem publish_queues (st : RSt) (p : Conn) (e : Event) (hwf : RegWF st) (hne : C02.TagsNonEmpty e)
    (hnd : (st.reg.map (·.1)).Nodup) :
    (st.publish p e).2 = .ok () ∧ (st.publish p e).1.reg = st.reg ∧
    ∀ c, nGet (st.publish p e).1.q c =
      if c ∈ st.reg.map (·.1) then some (enqueue st.buflen ((nGet st.q c).getD []) (owedTo st c e)) else nGet st.q c := by
  have hb : ∃ pb, nGet (st.step (.pubBegin p e)).1.pubs p = some pb ∧ pb.e = e := ⟨_, pubBegin_todo st p e, rfl⟩
  have hwf1 : RegWF (st.step (.pubBegin p e)).1 := hwf
  obtain ⟨r1, r2, r3, r4⟩ := go_spec p e (st.reg.map (·.1)) hnd (st.step (.pubBegin p e)).1 hwf1 hne hb
  unfold RSt.publish
  simp only []
  cases hg : RSt.publish.go p (st.step (.pubBegin p e)).1 (st.reg.map (·.1)) with
  | mk st2 r =>
    rw [hg] at r1 r2 r3 r4
    simp only [] at r1 r2 r3 r4
    subst r1
    simp only [RSt.step]
    exact ⟨trivial, r2, r4⟩

/-- the registry never holds a connection twice (premise of `publish_queues`): preserved by every step -/
theorem reg_keys_nodup (st : RSt) (s : RStep) (h : (st.reg.map (·.1)).Nodup) :
    ((st.step s).1.reg.map (·.1)).Nodup := by
  have hset : ∀ (k : Conn) (v : List (String × List Filter)), ((nSet st.reg k v).map (·.1)).Nodup := by
    intro k v
    simp only [nSet, List.map_cons, List.nodup_cons]
    refine ⟨?_, ?_⟩
    · simp [List.mem_map, List.mem_filter]
    · exact List.Nodup.sublist (List.Sublist.map (fun x : Conn × List (String × List Filter) => x.1)
        (List.filter_sublist (l := st.reg) (p := fun p => p.1 != k))) h
  cases s with
  | subscribe c s fs => exact hset _ _
  | unsubscribe c s =>
    simp only [RSt.step]
    cases nGet st.reg c with
    | none => exact h
    | some subs => exact hset _ _
  | unsubAll c =>
    simp only [RSt.step, nErase]
    exact List.Nodup.sublist (List.Sublist.map (fun x : Conn × List (String × List Filter) => x.1)
      (List.filter_sublist (l := st.reg) (p := fun p => p.1 != c))) h
  | pubBegin p e => exact h
  | visit p c =>
    simp only [RSt.step]
    cases nGet st.pubs p with
    | none => exact h
    | some pb =>
      simp only []
      cases matched ((nGet st.reg c).getD []) pb.e with
      | panic => exact h
      | ok ms => exact h
  | pubEnd p => exact h
  | deq c =>
    simp only [RSt.step]
    cases (nGet st.q c).getD [] with
    | nil => exact h
    | cons m rest => exact h

/-! non-vacuity: two connections, one with two subscriptions (one matching), buffer 1 -/
def exEv : Event := { id := "e1", pubkey := "p", createdAt := 1, kind := 1, tags := [], content := "", sig := "" }
def exSt : RSt :=
  (((({ buflen := 1 } : RSt).step (.subscribe 0 "a" [{ kinds := some [1] }])).1.step (.subscribe 0 "b" [{ kinds := some [2] }])).1.step
    (.subscribe 1 "z" [{}])).1
example : ((exSt.publish 2 exEv).1.q, (exSt.publish 2 exEv).2) =
    ([(0, [.event "a" exEv]), (1, [.event "z" exEv])], .ok ()) := by decide

/-- a connection's subscription ids are distinct (Go map keys) -/
def SubsOK (st : RSt) : Prop := ∀ c subs, nGet st.reg c = some subs → (subs.map Prod.fst).Nodup

theorem alSet_keys_nodup {β} (l : List (String × β)) (k : String) (v : β) (h : (l.map Prod.fst).Nodup) :
    ((alSet l k v).map Prod.fst).Nodup := by
  simp only [alSet, List.map_cons, List.nodup_cons]
  refine ⟨?_, List.Nodup.sublist (List.Sublist.map _ (List.filter_sublist)) h⟩
  simp [List.mem_map, List.mem_filter]

theorem alErase_keys_nodup {β} (l : List (String × β)) (k : String) (h : (l.map Prod.fst).Nodup) :
    ((alErase l k).map Prod.fst).Nodup :=
  List.Nodup.sublist (List.Sublist.map _ (List.filter_sublist)) h

theorem subsOK_step (st : RSt) (s : RStep) (h : SubsOK st) : SubsOK (st.step s).1 := by
  intro c subs hc
  cases s with
  | subscribe c0 s0 fs =>
    simp only [RSt.step] at hc
    by_cases hcc : c = c0
    · subst hcc
      rw [nGet_nSet_self] at hc
      cases hc
      cases hg : nGet st.reg c with
      | none => simp [hg, alSet]
      | some old => simp only [hg, Option.getD_some]; exact alSet_keys_nodup old s0 fs (h c old hg)
    · rw [nGet_nSet_ne _ _ _ _ hcc] at hc; exact h c subs hc
  | unsubscribe c0 s0 =>
    simp only [RSt.step] at hc
    cases hg : nGet st.reg c0 with
    | none => simp only [hg] at hc; exact h c subs hc
    | some old =>
      simp only [hg] at hc
      by_cases hcc : c = c0
      · subst hcc
        rw [nGet_nSet_self] at hc
        cases hc
        exact alErase_keys_nodup old s0 (h c old hg)
      · rw [nGet_nSet_ne _ _ _ _ hcc] at hc; exact h c subs hc
  | unsubAll c0 =>
    simp only [RSt.step] at hc
    by_cases hcc : c = c0
    · subst hcc; rw [nGet_nErase_self] at hc; cases hc
    · rw [nGet_nErase_ne _ _ _ hcc] at hc; exact h c subs hc
  | pubBegin p e => simp only [RSt.step] at hc; exact h c subs hc
  | visit p c0 =>
    have hreg : (st.step (.visit p c0)).1.reg = st.reg := by
      simp only [RSt.step]
      cases nGet st.pubs p with
      | none => rfl
      | some pb =>
        simp only []
        cases matched ((nGet st.reg c0).getD []) pb.e <;> rfl
    rw [hreg] at hc; exact h c subs hc
  | pubEnd p => simp only [RSt.step] at hc; exact h c subs hc
  | deq c0 =>
    have hreg : (st.step (.deq c0)).1.reg = st.reg := by
      simp only [RSt.step]
      cases (nGet st.q c0).getD [] <;> rfl
    rw [hreg] at hc; exact h c subs hc

/-- **C07, exactly once.**  What a completed publish owes a connection contains `EVENT s e` exactly once for each
    of its subscriptions `(s, fs)` whose filters match, and not at all otherwise; nothing else is owed. -/
theorem owed_count (st : RSt) (hok : SubsOK st) (c : Conn) (e : Event) (s : String) (fs : List Filter)
    (hmem : (s, fs) ∈ (nGet st.reg c).getD []) :
    (owedTo st c e).count (.event s e) = if nip01MatchAnyB fs e then 1 else 0 := by
  cases hg : nGet st.reg c with
  | none => simp [hg] at hmem
  | some subs =>
    have hnd := hok c subs hg
    simp only [hg, Option.getD_some] at hmem
    simp only [owedTo, hg, Option.getD_some]
    clear hg
    induction subs with
    | nil => cases hmem
    | cons x xs ih =>
      obtain ⟨xs', xfs⟩ := x
      simp only [List.map_cons, List.nodup_cons] at hnd
      rcases List.mem_cons.1 hmem with heq | hin
      · cases heq
        -- the rest of the list has no entry with id s
        have hrest : (xs.filterMap fun q => if nip01MatchAnyB q.2 e then some (ServerMsg.event q.1 e) else none).count (.event s e) = 0 := by
          rw [List.count_eq_zero]
          intro hm
          simp only [List.mem_filterMap] at hm
          obtain ⟨q, hq, hqe⟩ := hm
          split at hqe
          · cases hqe; exact hnd.1 (List.mem_map.2 ⟨q, hq, rfl⟩)
          · cases hqe
        simp only [List.filterMap_cons]
        cases hm : nip01MatchAnyB fs e
        · simp [hrest]
        · simp [hrest]
      · have hne : xs' ≠ s := fun h => hnd.1 (h ▸ List.mem_map.2 ⟨(s, fs), hin, rfl⟩)
        simp only [List.filterMap_cons]
        cases hm : nip01MatchAnyB xfs e
        · simpa using ih hnd.2 hin
        · simp only [if_true]
          rw [List.count_cons_of_ne (by intro h; cases h; exact hne rfl)]
          exact ih hnd.2 hin

/-- every owed message is `EVENT s e` for a registered, matching subscription of that connection -/
theorem owed_sound (st : RSt) (c : Conn) (e : Event) (m : ServerMsg) (h : m ∈ owedTo st c e) :
    ∃ s fs, (s, fs) ∈ (nGet st.reg c).getD [] ∧ m = .event s e ∧ nip01MatchAnyB fs e = true := by
  simp only [owedTo, List.mem_filterMap] at h
  obtain ⟨⟨s, fs⟩, hin, hq⟩ := h
  by_cases hm : nip01MatchAnyB fs e = true
  · simp [hm] at hq; exact ⟨s, fs, hin, hq.symm, hm⟩
  · simp [hm] at hq

end Moc.C07
