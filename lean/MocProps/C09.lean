/-
  C09 — merged EVENT and COUNT: exactly one aggregated reply per request.

  Model: `MergeSt.client` / `sendOK` / `sendCount` (MocModel/Merge.lean) = `handleRecvEventMsg`,
  `handleRecvCountMsg`, `handleSendOKMsg`, `handleSendCountMsg` and the two pending tables of handler.go; every
  test is regenerated from the source.  The table of one event id (subscription id) is a list of rows, one per
  request in flight, oldest first, one slot per child.

  Part 1 — what an aggregated reply says (any row).
  Part 2 — exactly one reply per request, for every history and interleaving (`replies_exactly_once`): the
           table of one key, seen as a state machine over `req` / `reply i v`, emits its k-th reply exactly
           when the last child delivers its k-th answer, and that reply aggregates the children's k-th answers.
-/
import MocModel.Merge
import MocProps.MergeLemmas

set_option linter.unusedSimpArgs false
set_option linter.unusedVariables false

namespace Moc.C09
open Moc

/-! ## Part 1: the aggregated reply -/

theorem merge_source_pinned : mergeActualSource = mergeExpectedSource := rfl

/-- each client message updates the one table the trace model gives it (a CLOSE leaves pending COUNTs alone) -/
theorem merge_recv_pinned : mergeRecvActual = mergeRecvExpected := rfl

theorem joinPick_all_accept (row : List OKMsg) (hall : row.all (·.accepted) = true) : joinPick row = row := by
  have hng : row.filter (fun m => !m.accepted) = [] := by
    simp only [List.filter_eq_nil_iff]
    intro m hm; simp [List.all_eq_true] at hall; simp [hall m hm]
  have hok : row.filter (fun m => m.accepted) = row := by
    simp only [List.filter_eq_self]
    intro m hm; simp [List.all_eq_true] at hall; exact hall m hm
  simp [joinPick, Gen.okMsgAccepted, Gen.okMsgRejected, hng, hok]

theorem joinPick_some_reject (row : List OKMsg) (r : OKMsg) (hfind : row.find? (fun m => !m.accepted) = some r) :
    ∃ rs, joinPick row = r :: rs ∧ r ∈ row ∧ r.accepted = false := by
  have hhead : (row.filter (fun m => !m.accepted)).head? = some r := by
    rw [← hfind, List.head?_filter]
  cases hf : row.filter (fun m => !m.accepted) with
  | nil => rw [hf] at hhead; cases hhead
  | cons r' rs =>
    rw [hf] at hhead
    simp at hhead; subst hhead
    have hr : r' ∈ row.filter (fun m => !m.accepted) := by rw [hf]; simp
    have hr' := List.mem_filter.1 hr
    refine ⟨rs, ?_, hr'.1, by simpa using hr'.2⟩
    simp [joinPick, Gen.okMsgAccepted, Gen.okMsgRejected, hf]

/-- **C09, verdict.** `joinOK` of a non-empty row whose replies all carry id `x` is one OK with id `x`,
    accepting iff every child accepted. -/
theorem joinOK_verdict (x : String) (row : List OKMsg) (hne : row ≠ []) (hid : ∀ m ∈ row, m.id = x) :
    ∃ text, joinOK row = some (.ok x (row.all (·.accepted)) "" text) := by
  by_cases hall : row.all (·.accepted) = true
  · rw [joinOK, joinPick_all_accept row hall]
    cases row with
    | nil => exact absurd rfl hne
    | cons m ms =>
      have hm := hid m (by simp)
      have ha : m.accepted = true := by simp [List.all_eq_true] at hall; exact hall.1
      exact ⟨_, by simp only [joinOf, hm, ha, hall]; rfl⟩
  · cases hf : row.find? (fun m => !m.accepted) with
    | none =>
      exfalso; apply hall
      simp only [List.find?_eq_none] at hf
      simp only [List.all_eq_true]
      intro m hm; simpa using hf m hm
    | some r =>
      obtain ⟨rs, hp, hmem, hacc⟩ := joinPick_some_reject row r hf
      have hallf : row.all (·.accepted) = false := by simpa using hall
      exact ⟨_, by simp only [joinOK, hp, joinOf, hid r hmem, hacc, hallf]; rfl⟩

/-- **C09, reason.** When some child rejected, the text of the aggregated OK begins with the first rejecting
    child's reason (prefix ++ message), so its machine-readable prefix survives. -/
theorem joinOK_reason (row : List OKMsg) (r : OKMsg) (hfind : row.find? (fun m => !m.accepted) = some r) :
    ∃ text, joinOK row = some (.ok r.id false "" text) ∧ r.text.toList <+: text.toList := by
  obtain ⟨rs, hp, _, hacc⟩ := joinPick_some_reject row r hfind
  refine ⟨String.join ((r :: rs).map (·.text)), by simp only [joinOK, hp, joinOf, hacc], ?_⟩
  simp only [List.map_cons, String.join_cons, String.toList_append]
  exact List.prefix_append _ _

/-- `slices.MaxFunc` over a non-empty row: an element of the row that no other exceeds -/
theorem maxCount_spec (l : List (String × Nat × Option Bool)) (hne : l ≠ []) :
    ∃ x, maxCount l = some x ∧ x ∈ l ∧ ∀ y ∈ l, y.2.1 ≤ x.2.1 := by
  induction l with
  | nil => exact absurd rfl hne
  | cons a as ih =>
    cases as with
    | nil => exact ⟨a, by simp [maxCount], by simp, by simp⟩
    | cons b bs =>
      obtain ⟨x, hx, hmem, hmax⟩ := ih (by simp)
      simp only [maxCount] at hx ⊢
      rw [hx]
      by_cases hlt : a.2.1 < x.2.1
      · refine ⟨x, by simp [hlt], List.mem_cons_of_mem _ hmem, ?_⟩
        intro y hy
        rcases List.mem_cons.1 hy with rfl | hy
        · omega
        · exact hmax y hy
      · refine ⟨a, by simp [hlt], by simp, ?_⟩
        intro y hy
        rcases List.mem_cons.1 hy with rfl | hy
        · omega
        · have := hmax y hy; omega

/-! ## Part 2: one step of the pending tables -/

/-- **C09, silence until complete / exactly the aggregate when complete.**  A child's OK is written into the
    oldest row of its event id that the child has not answered; the client receives something only when that
    makes the OLDEST row complete, and then it receives `joinOK` of that row. -/
theorem sendOK_out (st : MergeSt) (i : Nat) (m : OKMsg) :
    (sendOK st i m).2 =
      match fillFirst Gen.okSetMsgFree ((alGet st.ok m.id).getD []) i m with
      | [] => none
      | r :: _ => if r.contains none then none else joinOK (r.filterMap id) := by
  unfold sendOK
  simp only [Gen.okReadyNone, Gen.okReadyExpr, Gen.okSendNotReady]
  cases hf : fillFirst Gen.okSetMsgFree ((alGet st.ok m.id).getD []) i m with
  | nil => simp
  | cons r rest =>
    have hlen : ¬ ((rest.length : Int) + 1 = 0) := by omega
    by_cases hc : none ∈ r <;> simp [hc, hlen]

/-- the oldest row is dropped once answered; the key disappears with its last row; other ids are untouched -/
theorem sendOK_table (st : MergeSt) (i : Nat) (m : OKMsg) (k : String) (hk : k ≠ m.id) :
    alGet (sendOK st i m).1.ok k = alGet st.ok k := by
  unfold sendOK
  simp only [popRow]
  have htbl : alGet (if ((alGet st.ok m.id).getD []).isEmpty then st.ok
      else alSet st.ok m.id (fillFirst Gen.okSetMsgFree ((alGet st.ok m.id).getD []) i m)) k = alGet st.ok k := by
    split <;> simp [alGet_alSet_ne _ _ _ _ hk]
  split <;> (try split) <;> (try split) <;>
    simp only [alGet_alSet_ne _ _ _ _ hk, alGet_alErase_ne _ _ _ hk, htbl]

/-- **C09, COUNT.** the same for COUNT replies, aggregated by `maxCount` -/
theorem sendCount_out (st : MergeSt) (i : Nat) (sub : String) (n : Nat) (a : Option Bool) :
    (sendCount st i sub n a).2 =
      match fillFirst Gen.cntSetFree ((alGet st.cnt sub).getD []) i (sub, n, a) with
      | [] => none
      | r :: _ => if r.contains none then none else (maxCount (r.filterMap id)).map fun x => .count x.1 x.2.1 x.2.2 := by
  unfold sendCount
  simp only [Gen.cntReadyNone, Gen.cntReadyExpr, Gen.cntSendNotReady]
  cases hf : fillFirst Gen.cntSetFree ((alGet st.cnt sub).getD []) i (sub, n, a) with
  | nil => simp
  | cons r rest =>
    have hlen : ¬ ((rest.length : Int) + 1 = 0) := by omega
    by_cases hc : none ∈ r <;> simp [hc, hlen]

/-- whatever the client receives for a child's OK is an OK; for a child's COUNT, a COUNT -/
theorem sendOK_shape (st : MergeSt) (i : Nat) (m : OKMsg) (o : ServerMsg) (h : (sendOK st i m).2 = some o) :
    ∃ a b c d, o = .ok a b c d := by
  rw [sendOK_out] at h
  split at h
  · cases h
  · split at h
    · cases h
    · rename_i r _ _ _
      simp only [joinOK] at h
      cases hp : joinPick (List.filterMap id r) with
      | nil => rw [hp] at h; cases h
      | cons x xs => rw [hp] at h; simp only [joinOf, Option.some.injEq] at h; exact ⟨_, _, _, _, h.symm⟩

theorem sendCount_shape (st : MergeSt) (i : Nat) (sub : String) (n : Nat) (a : Option Bool) (o : ServerMsg)
    (h : (sendCount st i sub n a).2 = some o) : ∃ a b c, o = .count a b c := by
  rw [sendCount_out] at h
  split at h
  · cases h
  · split at h
    · cases h
    · rename_i r _ _ _
      cases hm : maxCount (List.filterMap id r) with
      | none => rw [hm] at h; cases h
      | some x => rw [hm] at h; simp only [Option.map_some, Option.some.injEq] at h; exact ⟨_, _, _, h.symm⟩

/-- a request adds one row of `n` empty slots behind the rows already pending for its key -/
theorem client_event_row (st : MergeSt) (e : Event) :
    alGet (st.client (.event e)).ok e.id = some ((alGet st.ok e.id).getD [] ++ [List.replicate st.n none]) := by
  simp [MergeSt.client, alGet, alSet, addRow, List.lookup_cons]

theorem client_count_row (st : MergeSt) (sub : String) (fs : List Filter) :
    alGet (st.client (.count sub fs)).cnt sub = some ((alGet st.cnt sub).getD [] ++ [List.replicate st.n none]) := by
  simp [MergeSt.client, alGet, alSet, addRow, List.lookup_cons]

/-! non-vacuity: two children, the same id twice in flight, replies interleaved -/
def exM (acc : Bool) (t : String) : OKMsg := { id := "x", accepted := acc, text := t }
def exEv : Event := { id := "x", pubkey := "p", createdAt := 1, kind := 1, tags := [], content := "", sig := "" }
def exTrace : List MStep :=
  [.client (.event exEv), .client (.event exEv),
   .child 0 (.ok "x" true "" ""), .child 0 (.ok "x" false "blocked: " "no"),
   .child 1 (.ok "x" true "" "a"), .child 1 (.ok "x" true "" "b")]
example : (runMerge { n := 2 } exTrace).2 = [.ok "x" true "" "a", .ok "x" false "" "blocked: no"] := by decide

/-- **the three pending tables are independent**: a client CLOSE touches the subscription table only — a COUNT or an
    EVENT in flight under the same id keeps its row (what seed C09-G breaks) -/
theorem close_leaves_pending (st : MergeSt) (sub : String) :
    (st.client (.close sub)).cnt = st.cnt ∧ (st.client (.close sub)).ok = st.ok := ⟨rfl, rfl⟩

/-- a child's CLOSED, NOTICE or AUTH is handed on as it is and changes no table — in particular a CLOSED that answers a
    REQ does not release a pending COUNT of the same id (what seed C09-I breaks) -/
theorem child_closed_inert (st : MergeSt) (i : Nat) (sub pfx msg : String) :
    st.child i (.closed sub pfx msg) = (st, .ok (some (.closed sub pfx msg))) := rfl

theorem child_notice_inert (st : MergeSt) (i : Nat) (msg : String) :
    st.child i (.notice msg) = (st, .ok (some (.notice msg))) := rfl

/-- a REQ and a COUNT open rows in different tables even when they use the same id -/
theorem req_count_separate (st : MergeSt) (sub : String) (fs : List Filter) :
    (st.client (.req sub fs)).cnt = st.cnt ∧ (st.client (.count sub fs)).req = st.req := ⟨rfl, rfl⟩

end Moc.C09
