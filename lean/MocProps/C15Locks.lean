/-
  C15 (and the registry of C07): lock discipline, as theorems about tables regenerated from the source on every
  run.  Together with `sync.RWMutex` (trusted) these are what makes each public call of the store one atomic step
  of the sequential model, i.e. what the linearizability search of the harness otherwise only samples.
-/
import MocModel.Locks

namespace Moc.C15Locks

/-- every method of event_cache.go obeys the discipline of `lockOK` -/
theorem cache_lock_discipline : lockOK Gen.locksCache = true := by decide

/-- the private fields and methods of the store are not named in any other file of the package -/
theorem cache_state_private : Gen.cacheFieldsOutside = [] := by decide

/-- every state-writing method of the store runs under the WRITE lock only: the lock holders that reach it are
    exactly `EventCache.Add` -/
theorem cache_writers_under_write_lock :
    ∀ w ∈ writers Gen.locksCache, holdersOf Gen.locksCache w = [("EventCache.Add", "Lock")] := by decide

/-- the public operations and the lock each one is a critical section of -/
theorem cache_entries :
    (Gen.locksCache.filter LockRow.entry).map (fun (r : LockRow) => (r.name, r.lock, (reachOf Gen.locksCache r.name).filter (fun m => lockOf Gen.locksCache m != "none")))
      = [("EventCache.Len", "RLock", []), ("EventCache.Add", "Lock", []), ("EventCache.Find", "none", ["EventCache.findNeedLock"])] := by decide

/-- `safeMap`: every method is a critical section; the two mutators hold the write lock -/
theorem safeMap_lock_discipline :
    lockOK Gen.locksSafeMap = true ∧
    Gen.locksSafeMap.map (fun (r : LockRow) => (r.name, r.lock, r.writes)) =
      [("safeMap.Get", "RLock", false), ("safeMap.TryGet", "RLock", false), ("safeMap.Add", "Lock", true),
       ("safeMap.Delete", "Lock", true), ("safeMap.Loop", "RLock", false)] := by decide

/-! non-vacuity: the checker rejects the realistic ways of breaking the discipline -/

/-- a reader that writes -/
example : lockOK [("T.Get", "RLock", true, true, true, [])] = false := by decide
/-- a public method that reads state without the lock -/
example : lockOK [("T.Len", "none", false, true, true, [])] = false := by decide
/-- a public method that reaches an unlocked state-touching helper -/
example : lockOK [("T.Len", "none", false, false, true, ["T.len"]), ("T.len", "none", false, true, false, [])] = false := by decide
/-- a reader that reaches a writer through a helper -/
example : lockOK [("T.Find", "RLock", false, true, true, ["T.h"]), ("T.h", "none", false, false, false, ["T.w"]), ("T.w", "none", true, true, false, [])] = false := by decide
/-- re-entrant acquisition -/
example : lockOK [("T.Add", "Lock", true, true, true, ["T.Len"]), ("T.Len", "RLock", false, true, true, [])] = false := by decide
/-- unlock not deferred / lock taken later in the body -/
example : lockOK [("T.Add", "irregular", true, true, true, [])] = false := by decide

end Moc.C15Locks
