/-
  C09, trace level, COUNT: every COUNT gets exactly one COUNT reply over all histories and interleavings
  (`merged_count_exactly_once`) — the same argument as C09Trace.lean for the table of COUNT subscription ids.
-/
import MocModel.Merge
import MocProps.MergeLemmas
import MocProps.C09
import MocProps.C09Table
import MocProps.C09Trace
set_option linter.unusedSimpArgs false
set_option linter.unusedVariables false
namespace Moc.C09
open Moc

abbrev CntV := String × Nat × Option Bool

/-- the pending rows of COUNT subscription id `X` -/
def cntRows (st : MergeSt) (X : String) : List (List (Option CntV)) := (alGet st.cnt X).getD []

theorem contains_none_eq_cnt (r : List (Option CntV)) : r.contains none = !rowFull r := by
  induction r with
  | nil => rfl
  | cons x xs ih =>
    cases x with
    | none => simp [rowFull]
    | some v => simp [rowFull, List.contains_cons] at ih ⊢; exact ih

def countOf (row : List CntV) : Option ServerMsg := (maxCount row).map fun x => .count x.1 x.2.1 x.2.2

theorem countOf_isSome (row : List CntV) (h : row ≠ []) : (countOf row).isSome = true := by
  obtain ⟨x, hx, _, _⟩ := maxCount_spec row h
  simp [countOf, hx]

theorem full_filterMap_ne_nil_cnt (r : List (Option CntV)) (hf : rowFull r = true) (hl : 0 < r.length) :
    r.filterMap id ≠ [] := by
  cases r with
  | nil => simp at hl
  | cons x xs =>
    cases x with
    | none => simp [rowFull] at hf
    | some v => simp

/-- `handleSendCountMsg` on the table of its subscription id is one `reply` step of that table -/
theorem sendCount_tbl (st : MergeSt) (i : Nat) (sub : String) (c : Nat) (ap : Option Bool) :
    cntRows (sendCount st i sub c ap).1 sub = (tblStep st.n (cntRows st sub) (.reply i (sub, c, ap))).1 ∧
    (sendCount st i sub c ap).2 = ((tblStep st.n (cntRows st sub) (.reply i (sub, c, ap))).2).bind countOf ∧
    (sendCount st i sub c ap).1.n = st.n ∧ (sendCount st i sub c ap).1.ok = st.ok := by
  have hfree : (Gen.cntSetFree) = (fun b : Bool => b) := rfl
  unfold sendCount
  simp only [cntRows, tblStep, fill, hfree, Gen.cntReadyNone, Gen.cntReadyExpr, Gen.cntSendNotReady, popRow,
    Gen.cntClearKeep, contains_none_eq_cnt, countOf]
  cases hr : (alGet st.cnt sub).getD [] with
  | nil => simp [fillFirst, hr]
  | cons r0 rest0 =>
    cases hfr : fillFirst (fun b => b) (r0 :: rest0) i (sub, c, ap) with
    | nil =>
      have := fill_length (r0 :: rest0) i (sub, c, ap)
      simp [fill, hfr] at this
    | cons r rest =>
      have hlen : ¬ (((rest.length : Int) + 1) = 0) := by omega
      by_cases hrf : rowFull r = true
      · cases rest with
        | nil => simp [hrf, alGet_alErase_self]; rfl
        | cons r1 rest1 =>
          have h2 : ((rest1.length : Int) + 1 + 1 > 1) := by omega
          have h3 : ¬ ((rest1.length : Int) + 1 + 1 = 0) := by omega
          simp [hrf, alGet_alSet_self, h2, h3]; rfl
      · simp [hrf, alGet_alSet_self]

theorem sendCount_other (st : MergeSt) (i : Nat) (sub : String) (c : Nat) (ap : Option Bool) (X : String) (h : X ≠ sub) :
    cntRows (sendCount st i sub c ap).1 X = cntRows st X := by
  unfold sendCount
  simp only [cntRows, popRow]
  have htbl : alGet (if ((alGet st.cnt sub).getD []).isEmpty then st.cnt
      else alSet st.cnt sub (fillFirst Gen.cntSetFree ((alGet st.cnt sub).getD []) i (sub, c, ap))) X = alGet st.cnt X := by
    split <;> simp [alGet_alSet_ne _ _ _ _ h]
  split <;> (try split) <;> (try split) <;>
    simp only [alGet_alSet_ne _ _ _ _ h, alGet_alErase_ne _ _ _ h, htbl]

def projCnt (X : String) : List MStep → List (TOp CntV)
  | [] => []
  | .client m :: tr =>
    (match m with
     | .count sub _ => if sub = X then [TOp.req] else []
     | _ => []) ++ projCnt X tr
  | .child i msg :: tr =>
    (match msg with
     | .count sub c ap => if sub = X then [TOp.reply i (sub, c, ap)] else []
     | _ => []) ++ projCnt X tr

/-- how many times the client received something when a child's COUNT for subscription id `X` arrived -/
def cntEmits (X : String) : MergeSt → List MStep → Nat
  | _, [] => 0
  | st, .client m :: tr => cntEmits X (st.client m) tr
  | st, .child i msg :: tr =>
    (match msg with
     | .count sub _ _ => if sub = X then (outOf (st.child i msg).2).length else 0
     | _ => 0) + cntEmits X (st.child i msg).1 tr

theorem allEose_cnt (st : MergeSt) (sub : String) : (allEose st sub).1.cnt = st.cnt := by
  unfold allEose
  split
  · rfl
  · split
    · rfl
    · split <;> rfl

theorem setEose_cnt (st : MergeSt) (sub : String) (i : Nat) : (setEose st sub i).cnt = st.cnt := by
  unfold setEose
  split
  · rfl
  · split <;> rfl

theorem sendEose_cnt (st : MergeSt) (i : Nat) (sub : String) : (sendEose st i sub).1.cnt = st.cnt := by
  have a := allEose_cnt st sub
  have b := setEose_cnt (allEose st sub).1 sub i
  have c := allEose_cnt (setEose (allEose st sub).1 sub i) sub
  unfold sendEose
  split
  · exact a
  · split <;> rw [c, b, a]

theorem sendable_cnt (st : MergeSt) (i : Nat) (sub : String) (e : Event) : (sendableEvent st i sub e).1.cnt = st.cnt := by
  have a := allEose_cnt st sub
  unfold sendableEvent
  split
  · exact a
  · split
    · exact a
    · split
      · exact a
      · exact a

theorem sendOK_cnt (st : MergeSt) (i : Nat) (m : OKMsg) : (sendOK st i m).1.cnt = st.cnt := by
  unfold sendOK
  simp only []
  split <;> (try split) <;> rfl

theorem tblStep_out_ne_nil_cnt (n : Nat) (hn : 0 < n) (rows : List (List (Option CntV))) (i : Nat) (m : CntV)
    (hinv : Inv n rows) (row : List CntV) (h : (tblStep n rows (.reply i m)).2 = some row) : row ≠ [] := by
  simp only [tblStep] at h
  have hlens := fill_lens n rows i m hinv.len
  cases hfr : fill rows i m with
  | nil => simp [hfr] at h
  | cons r rest =>
    rw [hfr] at hlens
    simp only [hfr] at h
    by_cases hrf : rowFull r = true
    · simp only [hrf, if_true, Option.some.injEq] at h
      rw [← h]
      exact full_filterMap_ne_nil_cnt r hrf (by rw [hlens r (by simp)]; exact hn)
    · simp [hrf] at h

theorem cntRows_run (X : String) (n : Nat) (hn : 0 < n) (tr : List MStep) :
    ∀ st : MergeSt, st.n = n → Inv n (cntRows st X) → (∀ i m, MStep.child i m ∈ tr → i < n) →
      cntRows (runMerge st tr).1 X = (runTbl n (cntRows st X) (projCnt X tr)).1 ∧
      cntEmits X st tr = (runTbl n (cntRows st X) (projCnt X tr)).2.length := by
  induction tr with
  | nil => intro st _ _ _; exact ⟨rfl, rfl⟩
  | cons s tr ih =>
    intro st hst hinv hidx
    have hidx' : ∀ i m, MStep.child i m ∈ tr → i < n := fun i m h => hidx i m (List.mem_cons_of_mem _ h)
    cases s with
    | client m =>
      simp only [runMerge, cntEmits, projCnt]
      cases m with
      | count sub fs =>
        by_cases he : sub = X
        · subst he
          have hrows : cntRows (st.client (.count sub fs)) sub = addRow (cntRows st sub) n := by
            simp [cntRows, MergeSt.client, alGet_alSet_self, hst]
          have hinv' : Inv n (cntRows (st.client (.count sub fs)) sub) := by rw [hrows]; exact inv_addRow n hn _ hinv
          obtain ⟨h1, h2⟩ := ih (st.client (.count sub fs)) hst hinv' hidx'
          simp only [if_true, List.cons_append, List.nil_append, runTbl, tblStep, Option.toList_none]
          rw [hrows] at h1 h2
          exact ⟨h1, h2⟩
        · have hrows : cntRows (st.client (.count sub fs)) X = cntRows st X := by
            simp [cntRows, MergeSt.client, alGet_alSet_ne _ _ _ _ (fun h => he h.symm)]
          obtain ⟨h1, h2⟩ := ih (st.client (.count sub fs)) hst (by rw [hrows]; exact hinv) hidx'
          simp only [he, if_false, List.nil_append]
          rw [hrows] at h1 h2
          exact ⟨h1, h2⟩
      | req sub fs =>
        have := ih (st.client (.req sub fs)) hst hinv hidx'
        simpa [cntRows, MergeSt.client] using this
      | close sub =>
        have := ih (st.client (.close sub)) hst hinv hidx'
        simpa [cntRows, MergeSt.client] using this
      | auth e =>
        have := ih (st.client (.auth e)) hst hinv hidx'
        simpa [cntRows, MergeSt.client] using this
      | event e =>
        have := ih (st.client (.event e)) hst hinv hidx'
        simpa [cntRows, MergeSt.client] using this
    | child i msg =>
      simp only [runMerge, cntEmits, projCnt]
      cases msg with
      | count sub c ap =>
        by_cases hid : sub = X
        · subst hid
          obtain ⟨t1, t2, t3, _⟩ := sendCount_tbl st i sub c ap
          rw [hst] at t1 t2
          have hi : i < n := hidx i (.count sub c ap) (by simp)
          have hinv' := inv_reply n (cntRows st sub) i (sub, c, ap) hi hinv
          have hn' : (st.child i (.count sub c ap)).1.n = n := by simp only [MergeSt.child]; rw [t3, hst]
          have hrows : cntRows (st.child i (.count sub c ap)).1 sub =
              (tblStep n (cntRows st sub) (.reply i (sub, c, ap))).1 := by
            simp only [MergeSt.child]; exact t1
          obtain ⟨h1, h2⟩ := ih (st.child i (.count sub c ap)).1 hn' (by rw [hrows]; exact hinv') hidx'
          rw [hrows] at h1 h2
          simp only [if_true, List.cons_append, List.nil_append, runTbl, List.length_append]
          refine ⟨h1, ?_⟩
          rw [h2]
          congr 1
          simp only [MergeSt.child, t2]
          cases ho : (tblStep n (cntRows st sub) (.reply i (sub, c, ap))).2 with
          | none => rfl
          | some row =>
            have hne := tblStep_out_ne_nil_cnt n hn _ i _ hinv row ho
            have hs := countOf_isSome row hne
            cases hj : countOf row with
            | none => rw [hj] at hs; cases hs
            | some o => simp [hj, outOf]
        · have hrows : cntRows (st.child i (.count sub c ap)).1 X = cntRows st X := by
            simp only [MergeSt.child]
            exact sendCount_other st i sub c ap X (fun h => hid h.symm)
          have hn' : (st.child i (.count sub c ap)).1.n = n := by
            simp only [MergeSt.child]
            rw [(sendCount_tbl st i sub c ap).2.2.1, hst]
          have := ih (st.child i (.count sub c ap)).1 hn' (by rw [hrows]; exact hinv) hidx'
          rw [hrows] at this
          simpa [hid] using this
      | eose sub =>
        have hk := sendEose_okn st i sub
        have hrows : cntRows (st.child i (.eose sub)).1 X = cntRows st X := by simp [cntRows, MergeSt.child, sendEose_cnt]
        have := ih (st.child i (.eose sub)).1 (by simp [MergeSt.child, hk.2, hst]) (by rw [hrows]; exact hinv) hidx'
        rw [hrows] at this
        simpa using this
      | event sub e =>
        have hk := sendable_okn st i sub e
        have hrows : cntRows (st.child i (.event sub e)).1 X = cntRows st X := by simp [cntRows, MergeSt.child, sendable_cnt]
        have := ih (st.child i (.event sub e)).1 (by simp [MergeSt.child, hk.2, hst]) (by rw [hrows]; exact hinv) hidx'
        rw [hrows] at this
        simpa using this
      | ok id acc pfx t =>
        have hrows : cntRows (st.child i (.ok id acc pfx t)).1 X = cntRows st X := by simp [cntRows, MergeSt.child, sendOK_cnt]
        have hn' : (st.child i (.ok id acc pfx t)).1.n = n := by
          simp only [MergeSt.child]; rw [(sendOK_tbl st i _).2.2, hst]
        have := ih (st.child i (.ok id acc pfx t)).1 hn' (by rw [hrows]; exact hinv) hidx'
        rw [hrows] at this
        simpa using this
      | notice m => have := ih st hst hinv hidx'; simpa [MergeSt.child] using this
      | closed a b c => have := ih st hst hinv hidx'; simpa [MergeSt.child] using this
      | auth c => have := ih st hst hinv hidx'; simpa [MergeSt.child] using this

/-- **C09, every COUNT gets exactly one COUNT reply — all histories, all interleavings.**  As
    `merged_event_exactly_once`, for the table of COUNT subscription ids; the reply carries a count no child
    exceeds (`maxCount_spec`, `sendCount_out`). -/
theorem merged_count_exactly_once (n : Nat) (hn : 0 < n) (X : String) (tr : List MStep)
    (hidx : ∀ i m, MStep.child i m ∈ tr → i < n) (hc : Causal n 0 (fun _ => 0) (projCnt X tr)) :
    cntEmits X { n := n } tr ≤ reqs (projCnt X tr) ∧
    (∀ j, j < n → cntEmits X { n := n } tr ≤ replies j (projCnt X tr)) ∧
    ((∀ j, j < n → replies j (projCnt X tr) = reqs (projCnt X tr)) →
      cntEmits X { n := n } tr = reqs (projCnt X tr) ∧ cntRows (runMerge { n := n } tr).1 X = []) := by
  have h0 : cntRows ({ n := n } : MergeSt) X = [] := rfl
  obtain ⟨h1, h2⟩ := cntRows_run X n hn tr { n := n } rfl (by rw [h0]; exact inv_nil n) hidx
  rw [h0] at h1 h2
  obtain ⟨a, b, c⟩ := replies_exactly_once n hn (projCnt X tr) hc
  rw [h1, h2]
  exact ⟨a, b, c⟩

end Moc.C09
