import MocModel
