# Per-property configuration of ./check (see DESIGN.md §5, §10).

TRUSTED_BASE = [
    "Lean 4.33.0 kernel (lake build; no sorry/admit/native_decide/bv_decide/implemented_by/unsafe/user axioms: grepped on every run)",
    "axioms allowed per theorem: propext, Classical.choice, Quot.sound (audited with #print axioms on every run)",
    "go2lean (go/ast extractor regenerating MocModel/Gen/*.lean from /repo on every run) — output listed in this file",
    "correspondence harness (Go, runs the real code in-process) + compiled Lean driver executing the model definitions the theorems are about",
    "hand-modelled structure of the Go functions (tied by the correspondence run, not verified)",
]

PROPS = {
    "C02": {
        "lean_modules": ["MocProps.C02"],
        "theorem_files": ["MocProps/C02.lean"],
        "gen_groups": ["Matcher"],
        "n_quick": 30000, "n_thorough": 300000, "thorough_seeds": 3,
        "rule": "random (filter, event) pairs and (filter list, event sequence) cases over a small universe "
                "(4 authors, 12 kinds, 7 tag names, 4 values, created_at 1..12, limits 0/1/2/3/5/100, since/until 0..13, "
                "empty lists, repeated tag names, 1/2/3-element tags, empty tags as the excluded point); a case is "
                "non-trivial when the filter has at least one condition (match) or the list and the sequence are non-empty (seq); "
                "distinct = distinct input line (hash)",
        "level_text": "Full: `Match` of the model equals the NIP-01 predicate for every well-formed filter and every event without an empty tag "
                      "(matchOne_eq_spec, matchOne_iff), a filter list matches iff a member does (matchAny_eq_spec), an empty list matches nothing, "
                      "and after ANY fed event sequence Done holds iff every filter has a limit reached by its match count (done_iff) — by induction, "
                      "no bound on sizes. The model's comparisons are regenerated from event_matcher.go on every run; its loop structure is tied by a "
                      "differential run against the real matcher, and the spec monitor is evaluated on the implementation's verdicts.",
        "level_note": "Trusted: Lean kernel + propext/Classical.choice/Quot.sound; go2lean; harness/driver; Go map = assoc list with distinct keys. "
                      "Excluded point (empty tag => panic) is exhibited by a theorem and replayed.",
        "assumptions": ["Go map semantics (distinct keys) = Filter.WF", "events have no empty tag (Event.Valid) — the excluded point is exhibited and replayed"],
    },
}
