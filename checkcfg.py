# Per-property configuration of ./check (see DESIGN.md §5, §10).

TRUSTED_BASE = [
    "Lean 4.33.0 kernel (lake build; no sorry/admit/native_decide/bv_decide/implemented_by/unsafe/user axioms: grepped on every run)",
    "axioms allowed per theorem: propext, Classical.choice, Quot.sound (audited with #print axioms on every run)",
    "go2lean (go/ast extractor regenerating MocModel/Gen/*.lean from /repo on every run) — output listed in this file",
    "correspondence harness (Go, runs the real code in-process) + compiled Lean driver executing the model definitions the theorems are about",
    "hand-modelled structure of the Go functions (tied by the correspondence run, not verified)",
]

CACHE_RULE = ("insertion histories (4-30 steps, capacity 1/2/3/4/5/8/50) over 4 authors x 12 kinds (regular, 0, 3, 10002, ephemeral, addressable with/without/duplicate/"
              "valueless d, deletion requests with 1/2/3-element e/a tags referencing past, future, own, foreign, self and other requests) x created_at 1..12 (many ties) "
              "with re-offered events and new versions of existing addresses at -1/0/+1 s; after EVERY insertion the flag, Len() and the full listing are recorded, then 1-3 filter "
              "lists (aimed at the content: ids/authors/kinds/#x/since/until/limit 0..100, empty lists, several filters, non-nil empty tag map); non-trivial = every add and every "
              "non-empty find; distinct = distinct output line")

CODEC_RULE = ("well-formed client messages of all 5 types (all optional filter parts present/absent, #a values whose d contains ':', extreme created_at) rendered with "
              "random insignificant white space incl. before '['; every single-point corruption from 16 value-level mutations (wrong type, null, wrong length / upper-case / non-hex "
              "ids, out-of-range and fractional kinds, negative or inverted ranges, missing / extra / duplicate members, unknown and malformed filter keys, bad a-addresses, wrong arity, "
              "unknown / ill-typed labels) and 8 text-level ones (escaped label, truncation, invalid UTF-8, number forms, deep nesting, trailing data); server messages of all 7 types "
              "incl. COUNT payload variants (case-insensitive keys, unknown keys, 2^64 boundary, nulls); every text is decoded by ParseClientMsg+ValidClientMsg and by json.Unmarshal "
              "into its own and random other exported types; values of every type are round-tripped through json.Marshal; raw byte strings; non-trivial = every case; distinct = "
              "distinct output line")

WS_RULE = ("real WebSocket sessions against httptest.NewServer(NewRelay(recording handler)): 2-10 frames each — correctly signed EVENTs (white space added), altered copies that keep id and "
           "sig, EVENTs with a right id but a non-point pubkey / garbage signature, well-formed REQ/CLOSE/COUNT/AUTH, every single-point corruption of the codec generator, binary frames, "
           "non-JSON, invalid UTF-8 inside a JSON string — each followed by a barrier CLOSE that the handler answers with a barrier NOTICE (no timeouts); then 0-4 handler-emitted server "
           "messages of all 7 types read back as text frames; non-trivial = every session; distinct = distinct output line")

MERGE_RULE = ("traces of atomic steps through the real NewMergeHandler over 2-4 SCRIPTED children (8-40 steps + completion): client REQ (filters aimed at a 12-event pool, match-all, limit 0-3) / "
              "CLOSE / EVENT / COUNT; child EVENTs for requested subscriptions (sorted or not, matching or not, duplicates, fresh events), EOSE (once, twice, for unknown subscriptions), one OK per "
              "EVENT and child (accepting or rejecting with/without machine-readable prefix) and one COUNT per COUNT and child, NOTICE/CLOSED/AUTH; a child's message is followed by a barrier "
              "NOTICE of the same child and a client message is complete when every child has received it, so the step order is forced without timeouts; stream 2 additionally keeps the same "
              "event id / COUNT subscription id in flight several times; non-trivial = every trace; distinct = distinct output line")

ROUTER_RULE = ("2-4 concurrent sessions on ONE real RouterHandler (buffer 1/2/3/5), 10-32 operations driven one at a time: REQ (1-3 filters on kinds/authors/since/until/limit/#t; re-issued ids replace), "
               "CLOSE (open and non-open ids), EVENT, COUNT, disconnect, stop-reading / resume; an operation is complete when its direct reply (EOSE/OK/COUNT) is read, and after every EVENT each reading "
               "connection is flushed with a private barrier subscription + barrier event travelling FIFO through its queue, so what each connection received for that EVENT is known without "
               "timeouts; a connection that stopped reading is judged when it resumes; built with -race; stream 2 (CONCURRENT): every connection runs its own script in its own goroutine "
               "with random yields, all sends stamped with a global logical clock before, all receives after the fact, and the recorded history is judged by the real-time rule of the statement "
               "(must deliver / must not / may; replies; per-publisher order); non-trivial = every history; distinct = distinct output line")

SQLITE_RULE = ("batch histories through the real insertEvents/queryEvent (verif exports) on a real SQLite database (mattn/go-sqlite3): 3-10 batches of 1-8 events per history from a small universe (3 authors, "
               "all kind classes, new versions at -1/0/+1 s, duplicates, deletion requests by id and address before/after their targets incl. 3-element and 1-element tags, Unicode / NUL / quote content, "
               "created_at 0, negative and beyond 2^32), after every batch 1-4 filter lists (empty list, match-all, limit 0/1/2/3/5/100, ids/authors/kinds incl. empty value lists, 1-2 #x conditions incl. "
               "names differing only in case, since/until, overlapping filters); C14 stream: file database, a driver wrapper failing at a chosen call index (begin, each prepare, each exec, commit), "
               "retries, the same batch twice, close/reopen between batches; non-trivial = every batch and query; distinct = distinct output line")

PROPS = {
    "C02": {
        "lean_modules": ["MocProps.C02"],
        "theorem_files": ["MocProps/C02.lean"],
        "gen_groups": ["Matcher"],
        "n_quick": 30000, "n_thorough": 300000, "thorough_seeds": 3,
        "rule": "random (filter, event) pairs and (filter list, event sequence) cases over a small universe "
                "(4 authors, 12 kinds, 7 tag names, 4 values, created_at 1..12, limits 0/1/2/3/5/100, since/until 0..13, "
                "empty lists, repeated tag names, 1/2/3-element tags, empty tags as the excluded point); a case is "
                "non-trivial when the filter has at least one condition (match) or the list and the sequence are non-empty (seq); "
                "distinct = distinct input line (hash)",
        "level_text": "Full: `Match` of the model equals the NIP-01 predicate for every well-formed filter and every event without an empty tag "
                      "(matchOne_eq_spec, matchOne_iff), a filter list matches iff a member does (matchAny_eq_spec), an empty list matches nothing, "
                      "and after ANY fed event sequence Done holds iff every filter has a limit reached by its match count (done_iff) — by induction, "
                      "no bound on sizes. The model's comparisons are regenerated from event_matcher.go on every run; its loop structure is tied by a "
                      "differential run against the real matcher, and the spec monitor is evaluated on the implementation's verdicts.",
        "level_note": "Trusted: Lean kernel + propext/Classical.choice/Quot.sound; go2lean; harness/driver; Go map = assoc list with distinct keys. "
                      "Excluded point (empty tag => panic) is exhibited by a theorem and replayed.",
        "assumptions": ["Go map semantics (distinct keys) = Filter.WF", "events have no empty tag (Event.Valid) — the excluded point is exhibited and replayed"],
    },
    "C17": {
        "lean_modules": ["MocProps.C17"],
        "theorem_files": ["MocProps/C17.lean"],
        "gen_groups": ["Mw", "Consts", "Matcher"],
        "n_quick": 3000, "n_thorough": 30000, "thorough_seeds": 3,
        "rule": "random stacks (1-3) of the 10 stateless limit middlewares with small limits, and random NIP-11 documents (nil, no limitation "
                "block, any subset of the 7 limits), each driven through the real NewSimpleMiddleware plumbing with 3-14 client/server messages of all "
                "types whose sizes sit below/at/above each limit (created_at with a >=5 s margin around the moving boundary, multi-byte content); "
                "non-trivial = every case (a stack and a message sequence); distinct = distinct output line",
        "level_text": "Full for decisions and composition: for every limit value, message and clock reading each stateless limit middleware forwards the "
                      "message unchanged iff it respects the limit and otherwise answers exactly it with OK-false(id)/CLOSED(sub) (client_decision); server "
                      "messages pass unchanged; a stack forwards iff all members accept and the reply is the outermost rejecter's (chain_forwards, "
                      "chain_rejects); the NIP-11 chain is exactly the set limits, max_subscriptions innermost, identity without a limitation block "
                      "(nip11_*; the builder's source text is regenerated and pinned by nip11_source_pinned). Conditions and reply texts are regenerated from "
                      "handler.go on every run. The goroutine/channel plumbing of NewSimpleMiddleware is runtime-validated by the differential run.",
        "level_note": "Trusted: Lean kernel + standard axioms; go2lean; harness/driver. Not modelled: goroutine scheduling inside NewSimpleMiddleware "
                      "(validated with barrier messages, no timeouts); time.Now() (inputs keep a 5 s margin); negative limits (constructors panic) are outside the claim.",
        "assumptions": ["events carry no empty tag and allow/deny filters have distinct #x names (what the gate guarantees)"],
    },
    "C18": {
        "lean_modules": ["MocProps.C18", "MocProps.LockPairs"],
        "theorem_files": ["MocProps/C18.lean", "MocProps/LockPairs.lean"],
        "gen_groups": ["Mw", "Consts", "Locks"],
        "n_quick": 6000, "n_thorough": 60000, "thorough_seeds": 3,
        "rule": "stacks of MaxSubscriptions / RecvEventUniqueFilter / SendEventUniqueFilter (N and window sizes 1..4) over alphabets of 4 subscription "
                "ids and 5 event ids, 4-16 messages per session, 1-3 CONCURRENT sessions on one middleware instance, each session compared with its own "
                "model instance; non-trivial = every session; distinct = distinct output line",
        "level_text": "Full (LRU contract assumed): over ALL histories the quota invariant |open| <= N holds (quota_never_exceeded), a REQ is forwarded iff its id "
                      "is open or fewer than N are open, CLOSE frees the slot (quota_req, quota_close, quota_refines_spec); after ANY id sequence the LRU equals "
                      "the last `size` distinct ids by most recent occurrence and the duplicate verdict is membership in that window (lru_is_window, "
                      "recv_unique_step, send_unique_step, window_subset_seen); per-session state is independent (sessions_independent).",
        "level_note": "Trusted: Lean kernel + standard axioms; go2lean; harness/driver; hashicorp/golang-lru modelled by hand (Get promotes, Add evicts the least "
                      "recent) and validated by the differential run; real concurrency between sessions is exercised, not proved.",
        "assumptions": ["hashicorp LRU contract", "per-session state is created in ServeNostr / ServeNostrStart (checked by concurrent sessions in the run)"],
    },
    "C19": {
        "lean_modules": ["MocProps.C19", "MocProps.LockPairs"],
        "theorem_files": ["MocProps/C19.lean", "MocProps/LockPairs.lean"],
        "gen_groups": ["Prom", "Locks"], "race": True,
        "n_quick": 1500, "n_thorough": 15000, "thorough_seeds": 3,
        "rule": "1-3 sessions per case on a real prometheus.Registry, 2-12 messages each (REQ/CLOSE of 3 ids incl. repeats, server CLOSED, EVENT of several "
                "kinds, COUNT, AUTH, all server message types), either interleaved step by step with a Gather() after every step, or run concurrently with "
                "Gather() when all are idle and after all ended; every message is followed by a barrier round trip so each gather point is quiescent; "
                "non-trivial = every case; distinct = distinct output line",
        "level_text": "Full for the bookkeeping: for EVERY history of any number of sessions (messages between their Start and End, fresh session ids) the connection "
                      "gauge equals the number of live sessions, the subscription gauge equals the number of subscriptions opened by REQ and not ended by CLOSE, "
                      "CLOSED or session end, and each live session's set is exactly that set (gauges_equal_reality, by induction with an invariant); per-type and "
                      "per-kind counters equal the counts of crossed messages for every history (recv_counters, sent_counters, kind_counters); label tables are "
                      "regenerated from the switch cases. Transparency and the registry arithmetic are runtime-validated on every message of the run.",
        "level_note": "Trusted: Lean kernel + standard axioms; go2lean; harness/driver; prometheus client arithmetic; the guarded Inc/Dec/Sub statements are pinned by "
                      "prom_source_pinned against regenerated source text; concurrency of sessions is exercised (mutex discipline), not proved.",
        "assumptions": ["session ids (UUIDs) are never reused", "Start/End hooks bracket a session's messages (NewSimpleMiddleware)"],
    },
    "C20": {
        "lean_modules": ["MocProps.C20"],
        "theorem_files": ["MocProps/C20.lean"],
        "gen_groups": ["Http"],
        "n_quick": 3000, "n_thorough": 30000, "thorough_seeds": 3,
        "rule": "exhaustive table of 5 Upgrade values x 10 Accept values (absent, empty, exact, other type, lists, q-values, case variants, leading blank) x "
                "4 mux configurations through httptest; 22 hand-picked Nip11Kind texts; then random Nip11Kind values (0, negative, > 2^53, MaxInt/MinInt, "
                "From==To) and random NIP-11 documents (every field optional, nested kinds/fees) through json.Marshal/Unmarshal and ServeHTTP; "
                "non-trivial = every case; distinct = distinct output line",
        "level_text": "Full for the repo's own code: routing equals the statement for all header values and configurations (route_spec; header tests regenerated), a request "
                      "routed to the document is answered by it with the two headers (routed_to_doc_is_answered, nip11_headers), every kind range within Go's int "
                      "round-trips and is written as a single number iff From = To (kind_roundtrip), wrong arity is rejected (kind_pair_arity). The document's struct "
                      "(de)serialisation is encoding/json's reflection encoder: runtime-validated by round trips of random documents.",
        "level_note": "Trusted: Lean kernel + standard axioms; go2lean; harness/driver; net/http header canonicalisation; encoding/json (numbers reach the model as "
                      "integer literals classified by the harness).",
        "assumptions": ["headers clause read as applying to a configured document (a mux without one answers `{}`)", "document equality modulo omitempty (empty == absent)"],
    },
    "C03": {
        "lean_modules": ["MocProps.C03", "MocProps.C03Find", "MocProps.C04Refine"], "theorem_files": ["MocProps/C03.lean", "MocProps/C03Find.lean"],
        "gen_groups": ["Cache", "Matcher"], "harness_prop": "cache", "driver_prop": "cache", "stateful": True,
        "monitors": ["query"],
        "n_quick": 60000, "n_thorough": 600000, "thorough_seeds": 3,
        "rule": CACHE_RULE,
        "level_text": "Full on the model: for every store content with injective ids and non-empty tags (in particular every state reachable by insertions: storeOK_reachable), every list of "
                      "well-formed filters and EVERY iteration order of Go's maps, Find returns without panic the list sorted newest first (larger id first among equal timestamps, hence "
                      "non-increasing created_at and duplicate-free: sorted_desc) whose members are exactly, for each filter, the `limit` first retained events matching it per NIP-01 "
                      "(find_eq_spec, find_eq_spec_reachable, find_perm_irrelevant). Ingredients proved: the tree order is a strict total order; insertOrd keeps sortedness and adds exactly the new "
                      "event; sorted lists with equal members are equal (sorted_ext); the ordered-scan path returns the first `limit` matches of the tree walk (scanLoop_eq, scan_eq_topOf); the "
                      "index path's candidate test is the id/author/kind/#x conjunction (idxCandidate_eq) and its top-k loop ends with the first `limit` of what passes since/until whatever the "
                      "arrival order (topkLoop_eq, idx_eq_topOf); the merge over filters is the union (find_fold). The incremental maintenance of the tree and of the secondary index, and the reads through them "
                      "(scan over the tree, candidates = intersection of unions of index sets) are modelled as state in MocModel/CacheC.lean and proved to refine this model for every history "
                      "(C04Refine.concrete_refines_abstract, find_refines, cands_spec), so find_eq_spec speaks about the store as implemented; the concrete model's tables are compared with the "
                      "implementation's own (hook VerifState) after every insertion.",
        "level_note": "Trusted: Lean kernel + standard axioms; go2lean; harness/driver; igrmk/treemap ordering and Go map iteration are modelled (sorted list, finite map with an arbitrary "
                      "permutation for iteration order), not verified; filters have distinct single-byte tag names and events no empty tag (what Valid guarantees).",
        "assumptions": ["equal created_at at a limit boundary: any valid top-n accepted by the monitor (the model itself is exact: ties broken by id)", "ids are injective over the stored events"],
    },
    "C04": {
        "lean_modules": ["MocProps.C04", "MocProps.C04Refine"], "theorem_files": ["MocProps/C04.lean", "MocProps/C04Refine.lean"],
        "gen_groups": ["Cache", "Matcher"], "harness_prop": "cache", "driver_prop": "cache", "stateful": True,
        "monitors": ["retention"],
        "n_quick": 60000, "n_thorough": 600000, "thorough_seeds": 3,
        "rule": CACHE_RULE,
        "level_text": "Full for the retention core: for EVERY insertion history and capacity >= 0 the store holds at most capacity events, one per key (id / address) and no "
                      "ephemeral event (retention_all_histories, by induction with invariant Inv1), ids are pairwise distinct for id-injective histories (no_id_twice), nothing but "
                      "the offered event enters (add_subset), a not-new insertion changes nothing (not_new_no_change), the flag is characterised exactly (flag_iff: not suppressed and "
                      "first-or-strictly-newer of its key), newer displaces / older never does (newer_displaces), ephemeral events are never stored (ephemeral_never_retained). "
                      "Comparisons, kind ranges and the capacity test are regenerated from the source. TREE AND INDEX MAINTENANCE is inside the model: MocModel/CacheC.lean keeps "
                      "evsCreatedAt and evsIndex.idx as state updated the way the Go code does (Set/Del, Add/Delete with removal of emptied sets, eviction victim = last tree entry, by-id "
                      "deletion through the id index, candidates = intersection of unions of index sets), and C04Refine proves the refinement for EVERY history over id-injective events: "
                      "same flags, same maps, same answer to every query under every map iteration order (concrete_refines_abstract), the tree is the sorted view of the map and every "
                      "index set is exactly the retained events filed under its key (tables_consistent). The concrete model's tree, index, map and deletion registry are compared with the "
                      "implementation's own tables (hook EventCache.VerifState) after every insertion; the step relation `stepAllowed` is evaluated on the implementation's successive listings.",
        "level_note": "Trusted: Lean kernel + standard axioms; go2lean; harness/driver; the treemap library and Go maps behave as sorted list / finite map (validated by the table comparison "
                      "after every step).",
        "assumptions": ["equal created_at on one address: either version may be retained (model: first arrived)", "for ephemeral events the returned flag is not constrained by the monitor"],
    },
    "C05": {
        "lean_modules": ["MocProps.C05", "MocProps.C05Inv", "MocProps.C05Sound", "MocProps.C05Reg"], "theorem_files": ["MocProps/C05.lean", "MocProps/C05Inv.lean", "MocProps/C05Sound.lean", "MocProps/C05Reg.lean"],
        "gen_groups": ["Cache"], "harness_prop": "cache", "driver_prop": "cache", "stateful": True,
        "monitors": ["deletion"],
        "n_quick": 60000, "n_thorough": 600000, "thorough_seeds": 3,
        "rule": CACHE_RULE,
        "level_text": "Full for the stated clauses on the model: an insertion never removes an event of another author except as the capacity victim, which has the smallest "
                      "created_at (author_isolation, oldestOf_min; hypothesis: another author's event is not stored under the offered event's key — keys contain the author / ids are "
                      "hashes); a deletion request removes the events of its own author it references by key or by id (deleteByKind5_removes) and nothing of other authors "
                      "(deleteByKind5_isolated); its references are registered (k5_refs_registered) and registered events cannot be inserted again (blocked_while_deletion_retained). "
                      "For EVERY history (C05Inv.lean): in every reachable state no retained event is named - by the key it is stored under or by its id - by a retained deletion request "
                      "of its own author, whichever arrived first (never_visible_with_own_deletion), and the named events cannot come back while the request is retained (deleted_stays_out); "
                      "invariant Inv2 (distinct keys, no retained event blocked by the registry, every reference of a retained request registered) is carried through Add - replace, register, "
                      "delete referenced, evict - and through delete incl. the registry clean-up when a request leaves (add_inv2, delete_inv2, delete_keeps_registration). The converse for every history (C05Sound): every registration belongs to a retained request of that author and id naming that key (RegSound, add_rs), so a refused insertion always has a retained request behind it and the block lifts when the last one leaves (block_has_retained_request, no_request_no_block, registry_exact); the implementation's own registry is judged by the same criterion after every insertion (monitor class registry-orphan). The registry AS THE CODE KEEPS IT (a map from (key, author) to the set of ids of the retained requests, `isDeleted` = the entry exists, emptied sets removed) is modelled in MocModel/CacheReg.lean and proved to implement the set of triples the store model uses: isDeleted_refines, regAdd_refines / addKind5_refines, regDel_refines / cleanup_refines (invariant: no empty set is kept); the implementation's registry is compared with the model's triples after every insertion.",
        "level_note": "Trusted: Lean kernel + standard axioms; go2lean; harness/driver. Address references to replaceable events (kind:pubkey vs kind:pubkey:) are left open by the "
                      "statement and accepted either way by the monitor.",
        "assumptions": ["key strings of different slots differ (hex ids/pubkeys)"],
    },
    "C16": {
        "lean_modules": ["MocProps.C16", "MocProps.C16Restore", "MocProps.C16Worker"], "theorem_files": ["MocProps/C16.lean", "MocProps/C16Restore.lean", "MocProps/C16Worker.lean"],
        "gen_groups": ["Handlers", "Cache", "Consts", "Worker", "Sqlite"], "stateful": True,
        "n_quick": 15000, "n_thorough": 150000, "thorough_seeds": 3,
        "rule": "client message sequences (5-30 messages, all five types; EVENTs incl. duplicates, new versions at -1/0/+1 s, deletion requests, ephemeral; REQs aimed at the content) "
                "through the real CacheHandler (capacity 1/2/3/5/8/50) and SQLiteHandler (:memory:, bulk size 1) ServeNostr, replies delimited per request by a barrier COUNT; every "
                "cache history ends with Dump -> Restore into a fresh handler and 7 filter batteries on both; non-trivial = every message / dump; distinct = distinct output line",
        "level_text": "Full for the cache handler's request/reply logic on the model: replies are grouped per request in request order (serve_append, serve_length), an EVENT gets exactly one "
                      "OK with its id, accepting iff the store reports it as new, otherwise rejecting with the duplicate: prefix (event_reply), a REQ gets the stored matches labelled with "
                      "its subscription id then exactly one EOSE, COUNT one COUNT, CLOSE/AUTH nothing (other_replies, reply_shape); reply constructors are pinned against regenerated source "
                      "(handlers_source_pinned). Dump/Restore (C16Restore.lean): restoring the dump of ANY store satisfying the invariants - every store reached by insertions does - into a fresh store of the same "
                      "capacity gives a store that answers every list of well-formed filters exactly as the original, for every map iteration order (restore_dump, restore_dump_reachable; via "
                      "C03's find_eq_spec and C05's Inv2). Runtime-validated: the JSON-lines encoding of the dump, and the SQLite handler's replies (shapes judged by the same monitor). "
                      "The SQLite handler's asynchronous insert worker is modelled (MocModel/SqlWorker.lean; flush conditions and LRU size regenerated, loop statements pinned) and proved to "
                      "lose and invent nothing: after any arrivals and ticks, any batch size and whatever the LRU forgets, once flushed the tables are those of ONE batch of every event "
                      "handed over, in order (worker_equals_one_batch, via batch_split_irrelevant and the settledness lemmas of C14); at run time the handler is driven with several batch "
                      "sizes / flush intervals and the contents of its REQ replies are judged (C06 judge) behind a barrier event",
        "level_note": "Trusted: Lean kernel + standard axioms; go2lean; harness/driver; SimpleHandler's select loop and channel plumbing (validated with barrier requests).",
        "assumptions": ["for ephemeral events and for equal-created_at versions the OK verdict is not constrained by the monitor", "SQLite inserts are asynchronous: only reply shapes are judged here (content: C06)"],
    },
    "C15": {
        "lean_modules": ["MocProps.C15", "MocProps.C15Locks", "MocProps.LockPairs"], "theorem_files": ["MocProps/C15.lean", "MocProps/C15Locks.lean", "MocProps/LockPairs.lean"],
        "gen_groups": ["Cache", "Matcher", "Locks"], "race": True,
        "n_quick": 6000, "n_thorough": 60000, "thorough_seeds": 3,
        "rule": "2-4 goroutines x 1-3 calls (Add of related events: new versions at -1/0/+1 s, deletion requests of pre-loaded events, duplicates; match-everything and aimed "
                "Find; Len) on ONE EventCache of capacity 1-4 pre-loaded with 0-3 events, 25% through concurrent CacheHandler sessions; every call stamped with a global logical clock at "
                "invocation and response; the harness is built with -race; plus one 8-goroutine x 300-event mix per 500 cases whose listings are judged; non-trivial = at least two calls; "
                "distinct = distinct output line; the evidence reports how many histories had overlapping calls",
        "level_text": "Partial by nature: the theorems are (1) witness_sound — a linearization accepted by the checker is a sequential execution of the model, consistent with real time, "
                      "that reproduces every recorded result, so the check of each recorded history is verified; (2) listing_within_capacity + C04.retention_all_histories — every state "
                      "the sequential model can reach (hence every linearizable history) shows at most capacity events, one per address, all retained; (3) C15Locks — over a table REGENERATED "
                      "from event_cache.go on every run (method, lock taken first-thing with deferred unlock, writes shared state, touches shared state, exported, callees): every public "
                      "operation is one critical section of the RWMutex, every state-writing method is reached only under the write lock (only Add), read-lock holders reach no writer, no "
                      "re-entrant acquisition, and no other file names the private fields/methods (cache_lock_discipline, cache_writers_under_write_lock, cache_entries, cache_state_private). "
                      "That the Go runtime's RWMutex then yields only linearizable, race-free histories is runtime-validated: every generated concurrent history is searched for a linearization against the proved "
                      "model and the race detector watches the run.",
        "level_note": "Trusted: Lean kernel + standard axioms; harness/driver; the Go race detector; sync.RWMutex. Real thread interleavings are sampled, not enumerated.",
        "assumptions": ["logical-clock stamps bracket the cache call (the handler path adds a barrier COUNT that touches no cache state)"],
    },
    "C06": {
        "lean_modules": ["MocProps.C06", "MocProps.C06Tables", "MocProps.C06Tombs", "MocProps.C06Query", "MocProps.C06Answer"],
        "theorem_files": ["MocProps/C06.lean", "MocProps/C06Tables.lean", "MocProps/C06Tombs.lean", "MocProps/C06Query.lean", "MocProps/C06Answer.lean"],
        "gen_groups": ["Sqlite", "Cache", "Matcher"], "harness_prop": "sqlite", "driver_prop": "sqlite", "stateful": True,
        "monitors": ["answer"],
        "n_quick": 6000, "n_thorough": 60000, "thorough_seeds": 3,
        "rule": SQLITE_RULE,
        "level_text": "Partial by construction: the theorems are about a hand model of the SQL text (pinned), tied to SQLite/goqu/database-sql behaviour by the correspondence on a real database. "
                      "Proved on the model: a row with a tombstone by key or id of the same author matches no filter (hidden_row_never_matches, hidden_iff); the upsert replaces a stored row only by a "
                      "different, strictly newer event of a replaceable/addressable kind (upsert_replaces_iff); ephemeral events are never stored (ephemeral_not_stored); a skipped event changes "
                      "no table and a fresh one appends row, payload and tag rows (insertOne_noop, insertOne_fresh); a limit-0 filter contributes nothing (limit_zero_contributes_nothing). "
                      "For EVERY history of batches from the empty database: any split into batches gives the same tables (batch_split_irrelevant); one row per key, each row from an inserted event, "
                      "joined to that event's payload and carrying exactly its tag rows (tables_after_history), so every event a query returns is an inserted event identical in all seven fields "
                      "(answer_event_is_inserted); every inserted event is settled - the row under its key is itself or one it could not replace (every_event_settled: newest wins); the tombstone "
                      "tables are exactly the tombstones of the inserted deletion requests, so a row is hidden iff some inserted request of the same author names its id or address key, in either "
                      "arrival order (tombstones_after_history, hidden_iff_request, delIdRows_mem). The row test of a filter's sub-select equals 'not hidden and the stored event matches the filter per NIP-01' (rowMatches_eq; tag rows answer #k=v exactly when the event "
                      "has such a tag: tagRows_mem), hence after ANY history the query is buildable and each filter selects exactly the visible stored events matching it, with its limit "
                      "(candidates_eq, mem_selected). The final ORDER BY / LIMIT / union step admits several answers when timestamps tie; C06Answer states it relationally (Answers: per filter a "
                      "selection of min(limit, #candidates) candidates with nothing left out newer than anything taken; the answer lists their union once each, non-increasing) and proves that EVERY "
                      "such answer passes the judge used for both correspondence and property (answers_accepted, via slot_facts and kth_counts) - so ties cannot cause an alarm. What remains "
                      "hand-modelled is SQL itself (that SQLite executes the pinned statements as the table functions and Answers say). "
                      "Runtime-validated: every answer of the real database is judged, after every batch, both against the model's tables and against the history-based statement "
                      "(newest version per address, deletions by id/address of the same author in either arrival order, per-filter top-limit with ties, merged, distinct, non-increasing, "
                      "seven fields intact).",
        "level_note": "Trusted: Lean kernel + standard axioms; go2lean; harness/driver; SQLite, goqu, database/sql, mattn/go-sqlite3; xxHash32/MD5 collision-freeness on the generated universe.",
        "assumptions": ["ids are injective (equal id implies equal event)", "a-tag references are claimed for addressable events only", "which of several versions with equal newest created_at is kept is not constrained",
                        "upper-case hex in deletion e-tags is not generated"],
    },
    "C13": {
        "lean_modules": ["MocProps.C13"], "theorem_files": ["MocProps/C13.lean"],
        "gen_groups": ["Sites", "Router", "Prom"], "harness_prop": "c13", "driver_prop": "c13",
        "monitors": ["termination"],
        "n_quick": 700, "n_thorough": 7000, "thorough_seeds": 3, "timeout": 3000,
        "rule": "handler compositions (1-3 of default / cache / router / SQLite, merged when more than one; under 0-3 of the provided limiting/filtering middlewares and, 60%, the Prometheus middleware) "
                "serve a 5-11 message history (EVENT/REQ/CLOSE/COUNT; 12% long: 64-90 stored events then a match-all REQ) that is cut at EVERY point in three ways: cancel with a draining peer, "
                "cancel with a peer that stopped reading (more input is pushed so that output piles up), inbound channel closed with a draining peer; observed: ServeNostr returns within 5 s, "
                "goroutines with a frame of the repository's packages are back to the pre-session count within 3 s, router registry (verif accessor) empty, gauges back to 0; plus, once per run, "
                "a real Relay with a flooding handler and a WebSocket peer that never reads for SendTimeout 150/400 ms x PingDuration 0/30 ms/60 s; non-trivial = every session; distinct = distinct output line",
        "level_text": "Partial, the weakest of the set (Go runtime). Proved: over the regenerated list of EVERY channel operation of handler.go, relay.go, utils.go, handler/sqlite/handler.go and the Prometheus "
                      "middleware, each operation has a <-ctx.Done() alternative, or is non-blocking, or is one of 38 enumerated operations that cannot park (buffered / token / join / closed), occurrence "
                      "by occurrence (sites_guarded_or_justified, justifications_known, session_loops_guarded); a configured send timeout bounds every WebSocket write for every ping interval incl. "
                      "disabled (write_deadline_applies, from the regenerated guard of sendMsgWithTimeout); disconnect removes the whole registry entry (registry_released, C07 model). "
                      "Runtime-validated: that sessions return, leave no goroutine, registry entry or gauge value at every cut point of every generated history, for both ways of ending and both peer "
                      "behaviours, and that a non-reading WebSocket peer is dropped after SendTimeout.",
        "level_note": "Trusted: Lean kernel + standard axioms; go2lean's site extractor (go/ast: send statements, receive expressions, selects, ranges over channels made/received in the function); the "
                      "justifications of the 38 unguarded operations are read off the code; harness/driver; Go runtime, coder/websocket.",
        "assumptions": ["'promptly' = ServeNostr returns within 5 s and goroutines are gone within 3 s more", "inbound close with a stalled peer and no cancellation is not claimed (the statement says 'while output is being drained')",
                        "SendTimeout > 0"],
    },
    "C14": {
        "lean_modules": ["MocProps.C14", "MocProps.C14Tx"], "theorem_files": ["MocProps/C14.lean", "MocProps/C14Tx.lean"],
        "gen_groups": ["Sqlite", "Cache", "Matcher"], "harness_prop": "sqlitefault", "driver_prop": "sqlite", "stateful": True,
        "monitors": ["answer"],
        "n_quick": 3000, "n_thorough": 12000, "thorough_seeds": 3,
        "rule": SQLITE_RULE,
        "level_text": "Proved on the table model: inserting a batch again - after a success or as the retry after a failure - leaves every table exactly as one successful insertion does, for every "
                      "database state and batch with injective ids (insertBatch_idempotent, retries_equal_single_success: every statement of the second run finds its event settled, by an invariant "
                      "carried through the whole batch). The transaction is also modelled at the level of single driver calls (MocModel/SqlTx.lean: BeginTx, five Prepares, per event the upsert and - when it "
                      "affected a row - payload, tag and tombstone statements, Commit; deferred Rollback on any error) and proved for EVERY fault plan: the statements issued for an event build exactly the "
                      "per-event model's tables (execEvent_work, execBatch_work), insertEvents either reports success with the whole batch stored or reports an error with the database unchanged "
                      "(tx_all_or_nothing), success is reported only if none of the issued calls failed (tx_ok_no_fault_reached), and the same through bulkInsertWithRetry (retry_all_or_nothing, "
                      "retry_then_success); the implementation is compared with this model call by call (reported verdict and the number of driver calls the fault-injecting driver saw). "
                      "Partial: that Rollback / a failed Commit restore the state at BeginTx, and persistence, are properties of SQLite transactions and files; in the model a reopen is the identity by definition "
                      "(failed_batch_is_identity, retry_after_failure) and the fault-injecting correspondence checks that the real database behaves so: after a batch that failed at any driver call "
                      "index every query is answered as before, a retried or repeated batch gives the answers of one successful insertion, and answers survive close/reopen (same hash seed), "
                      "including replacement and deletion across the restart.",
        "level_note": "Trusted: Lean kernel + standard axioms; go2lean; harness/driver incl. the fault-injecting driver wrapper (a failing commit rolls the transaction back, as SQLite's aborting errors do); SQLite's journal.",
        "assumptions": ["faults are injected at driver-call granularity, not inside SQLite (no torn pages, no power loss)"],
    },
    "C07": {
        "lean_modules": ["MocProps.C07", "MocProps.C07Sched", "MocProps.LockPairs"], "theorem_files": ["MocProps/C07.lean", "MocProps/C07Sched.lean", "MocProps/LockPairs.lean"],
        "gen_groups": ["Router", "Matcher", "Locks"], "harness_prop": "router", "driver_prop": "router", "race": True,
        "monitors": ["delivery", "reply"],
        "n_quick": 1500, "n_thorough": 15000, "thorough_seeds": 3,
        "extra_streams": [{"harness_prop": "routerconc", "driver_prop": "routerconc", "monitors": ["delivery"], "n_quick": 150, "n_thorough": 1500,
                           "replay_op": "routerconc"}],
        "rule": ROUTER_RULE,
        "level_text": "Partial by nature (scheduler). On the LTS model of the registry at critical-section granularity (source text of Subscribe/Unsubscribe/UnsubscribeAll/Publish, of safeMap's methods, of "
                      "trySendCtx, of the session loop pinned by router_source_pinned; SendIfMatch's test regenerated), for EVERY state and so every interleaving: a visit appends to the visited "
                      "connection's queue exactly one EVENT s e, labelled with its own id, per subscription (s, filters) registered for it at that moment whose filters match per NIP-01, as far as there "
                      "is room, and touches nothing else (visit_effect, matched_spec, visit_adds_only_open_matching, visit_delivers_all); drops happen only against a full queue and pending deliveries "
                      "are never removed or reordered (enqueue_eq, enqueue_drop_only_when_full, enqueue_prefix); whether a publisher's step is enabled never depends on a queue (enabled_indep_queues, "
                      "visit_enabled); a publish visits a connection at most once (visit_once); REQ/CLOSE/disconnect take effect at once (subscribe_registers, unsubscribe_removes, "
                      "unsubAll_removes_everything); a publish that runs to completion leaves in every connection's queue exactly the owed deliveries (publish_queues, with reg_keys_nodup), and what is owed contains EVENT s e "
                      "exactly once per registered subscription (s, filters) whose filters match and nothing else (owed_count, owed_sound, subsOK_step). "
                      "OVER EVERY SCHEDULE of the LTS (any interleaving of enabled steps of any number of connections, C07Sched): a subscription registered when a publish begins and not touched "
                      "while it is in progress is visited by that publish exactly once, in a state in which it is still registered with the same filters (must_deliver, first_visit, "
                      "no_second_visit, pending_step, visited_step, subOf_untouched), and that visit appends EVENT s e exactly once iff the filters match (visit_delivers_once); a subscription id "
                      "not registered at the start and not subscribed later is absent at every later visit (must_not_deliver) - the must / must-not halves of the real-time rule. "
                      "Runtime-validated, not proved: that Go's RWMutex/channel runtime realises only LTS schedules; the mapping of wall-clock observations (EOSE received, OK received) to LTS "
                      "positions and per-publisher order are judged on recorded concurrent histories by the monitor of Spec/RouterConc.lean (stream 2).",
        "level_note": "Trusted: Lean kernel + standard axioms; go2lean (bodytext pins); harness/driver; Go's sync.RWMutex, channels and race detector.",
        "assumptions": ["stream 1 is sequentialised by the harness (every operation completes before the next); overlapping operations are exercised by stream 2 and the -race build",
                        "generated filters always name kinds or authors so that barrier events match no generated subscription"],
    },
    "C08": {
        "lean_modules": ["MocProps.C08", "MocProps.C08Stream"], "theorem_files": ["MocProps/C08.lean", "MocProps/C08Stream.lean"],
        "gen_groups": ["Merge", "Matcher"], "harness_prop": "merge", "driver_prop": "merge",
        "monitors": ["eose", "stream"],
        "n_quick": 2500, "n_thorough": 25000, "thorough_seeds": 3,
        "extra_streams": [{"harness_prop": "mergedup", "driver_prop": "merge", "monitors": ["eose", "stream"], "n_quick": 800, "n_thorough": 8000}],
        "rule": MERGE_RULE,
        "level_text": "On the model of the merge session's state machine (handler.go tests regenerated): a child's EOSE is forwarded, as EOSE with the same subscription id, exactly when it was the "
                      "last one missing, never earlier (eose_with_state, eose_not_early), the state is dropped then (eose_clears), and over ANY trace of atomic steps from ANY state the client "
                      "receives at most one EOSE per REQ and none for a subscription without state — never requested, closed, or past its EOSE (eose_at_most_once, no_state_no_eose, "
                      "closed_no_eose). A child's EVENT yields nothing or exactly that message (event_out_shape); after the EOSE everything is forwarded unchanged with the state untouched "
                      "(event_after_eose); before it a forwarded event comes from a child that has not sent EOSE, is not newer than the last event looked at, has an id not seen at its "
                      "timestamp, found the limit not exhausted and matches the REQ's filters per NIP-01 (event_before_eose, via C02's limitMatchAll_verdict). Trace level (C08Stream.lean): from a REQ on, over "
                      "EVERY trace that does not re-issue the subscription id, the events forwarded while its state exists are in non-increasing created_at order, pairwise distinct, all match "
                      "the filters, and for a single filter with limit n number at most n (pre_eose_stream_from_req, pre_eose_stream; invariant SInv carried by subStep_inv, J_child, J_client). "
                      "Runtime-validated: the goroutine plumbing (1-slot state channels, broadcast), with forced step orders on the real handler.",
        "level_note": "Trusted: Lean kernel + standard axioms; go2lean; harness/driver; the atomicity of handleRecvMsg/handleSendMsg (state passed through 1-slot channels) is read off the code, and "
                      "validated by forcing total orders on the real handler.",
        "assumptions": ["a subscription id is not re-issued before its EOSE (as in the property's quantifier); re-issued ones are not judged", "child indices are < number of children"],
    },
    "C09": {
        "lean_modules": ["MocProps.C09", "MocProps.C09Trace", "MocProps.C09TraceCount"],
        "theorem_files": ["MocProps/C09.lean", "MocProps/C09Trace.lean", "MocProps/C09TraceCount.lean"],
        "gen_groups": ["Merge"], "harness_prop": "merge", "driver_prop": "merge",
        "monitors": ["ok", "count"],
        "n_quick": 2500, "n_thorough": 25000, "thorough_seeds": 3,
        "extra_streams": [{"harness_prop": "mergedup", "driver_prop": "merge", "monitors": ["ok", "count"], "n_quick": 1500, "n_thorough": 15000}],
        "rule": MERGE_RULE,
        "level_text": "On the model of the two pending tables (rows per request in flight, oldest first; tests regenerated from handler.go): a child's OK/COUNT goes to the oldest row of its key the "
                      "child has not answered; the client receives something only when that completes the OLDEST row, and then exactly the aggregate of that row (sendOK_out, sendCount_out); "
                      "the aggregate of a row of replies with id x is one OK with id x accepting iff every child accepted (joinOK_verdict), whose text begins with the first rejecting child's "
                      "prefix+message (joinOK_reason); a COUNT aggregate carries a count no child exceeds (maxCount_spec); other keys are untouched (sendOK_table); replies are OK/COUNT shaped "
                      "(sendOK_shape, sendCount_shape). Trace level, for EVERY history and interleaving of a fresh session over n >= 1 children in which children answer only requests that were made "
                      "(several in flight, repeated ids allowed): the client never receives more replies for an id than it made requests, nor more than any child has answered, and once every "
                      "child has answered every request it has received exactly one reply per request and nothing is pending (merged_event_exactly_once, merged_count_exactly_once) - proved by "
                      "showing that the pending table of one key IS a run of a one-key machine on the trace's projection (okRows_run, cntRows_run) and by a counting invariant of that machine "
                      "(rows pending + replies = requests; answers of child j pending + replies = answers of child j; no stored row is complete; children fill oldest first: replies_exactly_once). "
                      "Runtime-validated: the goroutine plumbing, by the trace monitor on forced step orders of the real handler.",
        "level_note": "Trusted: Lean kernel + standard axioms; go2lean; harness/driver; atomicity of the handleSend*/handleRecv* steps as for C08.",
        "assumptions": ["every child answers each EVENT with one OK and each COUNT with one COUNT (the property's quantifier), for the same key in request order"],
    },
    "C10": {
        "lean_modules": ["MocProps.C10", "MocProps.C10Filter", "MocProps.C10DED"], "theorem_files": ["MocProps/C10.lean", "MocProps/C10Filter.lean", "MocProps/C10DED.lean"],
        "gen_groups": ["Codec", "Consts"], "harness_prop": "codec", "driver_prop": "codec",
        "monitors": ["nopanic", "roundtrip", "filled"],
        "n_quick": 40000, "n_thorough": 400000, "thorough_seeds": 3,
        "rule": CODEC_RULE,
        "level_text": "Partial by nature: on JSON trees the decoders are total functions (no panic outcome exists) and the proved round trips are Event (all seven fields, event_roundtrip), "
                      "the EVENT/AUTH/server-EVENT messages, EOSE/NOTICE/AUTH/CLOSE for every string, COUNT replies up to 2^64-1 (count_roundtrip), and OK / CLOSED compared as prefix++text (ok_roundtrip, closed_roundtrip; exactly when the prefix is one of the six "
                      "machine-readable ones: ok_roundtrip_known, closed_roundtrip_known, from parsePrefix_join / parsePrefix_known), with decode-encode-decode = decode for OK (ok_dec_enc_dec); "
                      "arities, labels, key tests and the prefix order are regenerated. Filters round trip for every filter whose tag conditions are non-empty with distinct single ASCII letter names and whose integers fit an int64 - all seven members, "
                      "present or absent (filter_roundtrip; the byte-level tag-key test accepts exactly '#'+letter: isTagKey_hash), hence REQ and COUNT with any non-empty filter list "
                      "(req_count_roundtrip). DECODE-ENCODE-DECODE = DECODE is proved for EVERY accepted tree of every type, with no well-formedness hypothesis on the value (C10DED): events "
                      "(event_dec_enc_dec: the decoder only lets int64s through), filters (filter_dec_enc_dec via decodeFilter_rt and isTagKey_inv: the byte-level key test accepts ONLY '#'+ASCII letter, "
                      "names of distinct keys are distinct), client EVENT/AUTH/CLOSE/REQ/COUNT, server EVENT/EOSE/NOTICE/AUTH/OK/CLOSED/COUNT (count payload never above 2^64-1). "
                      "Panic-freedom of the Go code on arbitrary bytes is runtime-validated: every "
                      "generated text is decoded by the real code under recover and compared with the model value by value (0 differences required).",
        "level_note": "Trusted: Lean kernel + standard axioms; go2lean; harness/driver; encoding/json's tokenizer, string unescaping, UTF-8 repair and reflection encoder (the tree handed to "
                      "the model is produced by Go's own decoder). A bare top-level `null` (a no-op by Go's Unmarshaler convention) is outside the claim.",
        "assumptions": ["OK/CLOSED values are compared in prefix-normal form", "filters are compared with their #x entries sorted by name (Go map)"],
    },
    "C11": {
        "lean_modules": ["MocProps.C11"], "theorem_files": ["MocProps/C11.lean"],
        "gen_groups": ["Valid", "Codec", "Consts"], "harness_prop": "codec", "driver_prop": "codec",
        "monitors": ["admission"],
        "n_quick": 40000, "n_thorough": 400000, "thorough_seeds": 3,
        "rule": CODEC_RULE,
        "level_text": "Full for the validators: ValidClientMsg judges a parsed message valid exactly when it meets the NIP-01 constraints (validClientMsg_iff: soundness and completeness in one), via "
                      "validFilter_iff (ids/authors 64-byte lower-case hex, kinds in range, since/until/limit non-negative, since <= until), validTagCond_iff (name one ASCII letter; #e/#p/#a "
                      "values ids/pubkeys/addresses) and validNaddr_iff (kind:pubkey:d with ANY d, also one containing ':'); Event.Valid holds exactly for events meeting the constraints (validEvent_iff: 64/128 bytes of "
                      "lower-case hex, kind in 0..65535, tags with a non-empty name), ids/pubkeys/sigs/kinds/tags each characterised (validID_iff ... validTag_iff), the label stage accepts any "
                      "JSON white space before and after '[' (labelOf_wellformed; the regexp is regenerated and pinned). Every validator condition is regenerated from the source, so a flipped "
                      "operator changes the model the theorems are about. The composition with parsing (JSON text -> message) is tied by the differential run and judged by "
                      "the monitors: generated well-formed texts must be parsed and valid, and nothing judged valid may break the constraints (`msgOkB`, proved to be exactly the "
                      "constraint set of the theorems: msgOkB_iff, and equal to the validators on every message: validClientMsg_eq_monitor).",
        "level_note": "Trusted: Lean kernel + standard axioms; go2lean; harness/driver; Go regexp semantics of \\s and \\w (hand-translated scanner, pinned pattern); strconv.ParseInt (hand-modelled).",
        "assumptions": ["a JSON null in place of an object is not claimed either way", "signed or zero-padded kind numbers inside an a value are not claimed either way"],
    },
    "C01": {
        "lean_modules": ["MocProps.C01", "MocProps.C01Sig", "MocProps.C01Curve"], "theorem_files": ["MocProps/C01.lean", "MocProps/C01Sig.lean", "MocProps/C01Curve.lean"],
        "gen_groups": ["Serialize"],
        "n_quick": 8000, "n_thorough": 40000, "thorough_seeds": 2, "timeout": 7000,
        "monitors": ["canonical", "authentic"],
        "extra_streams": [{"harness_prop": "ws", "driver_prop": "ws", "monitors": ["gate"], "n_quick": 500, "n_thorough": 5000, "replay_op": "ws"}],
        "rule": "events whose content and tag values are drawn per character class (ASCII, the 7 mandated escapes, other C0 controls, < > &, U+2028/9, DEL/C1, BMP, astral, combining; long "
                "strings), all kinds / created_at signs / tag shapes, freshly signed with btcec through an independent NIP-01 serializer; for each: Serialize() bytes, their SHA-256 (also "
                "recomputed by a Lean SHA-256), Verify(); then 4 alterations out of: single-field or single-bit changes (content, created_at, kind, tags, pubkey, one bit of id / sig / pubkey), "
                "forgeries with a recomputed id so that the signature check is reached (changed content, another key, one pubkey bit, pubkey edge values x = p-1.. / 0 / not on the curve / wrong length), "
                "signature edge cases (r = p, r = 2^256-1, r = 0, s = n, s = 2^256-1, s = 0, s negated mod n, a valid signature over another message, a valid signature by another key, wrong length) and malformed "
                "hex variants; every case whose id passes is decided by the Lean BIP-340 (fast version; the BIP's reference algorithm as well on one in sixteen) and btcec's answers are compared with the Lean model of btcec; thorough adds ALL 1,112,064 Unicode scalar values as one-character content and tag value; non-trivial = every case; distinct = distinct output line",
        "level_text": "Partial by nature (cryptography): proved for EVERY event — the serialized form that is hashed is the NIP-01 canonical form, character by character, incl. < > & U+2028 U+2029 "
                      "and all planes (escRune_eq_canonChar, serialize_eq_canonical; escape table regenerated from the code), and Verify reports authentic exactly when the id decodes to the hash of "
                      "that form and pubkey/signature decode, parse and pass the BIP-340 check (verify_true_iff; id_mismatch_not_authentic, bad_signature_not_authentic). That every correctly "
                      "signed event verifies and that altering a signed field changes the hash / breaks the signature are cryptographic facts: validated on every generated signature and "
                      "alteration, not proved. The signature verdict is no longer taken from the implementation's library: MocModel/Bip340.lean is an executable BIP-340 (reference algorithm and a "
                      "Jacobian fast version, checked against the BIP's vectors and against each other), verifyFull_true_iff / verifyFull_true_bip340 state Verify end to end (Lean SHA-256, Lean "
                      "signature check), and the monitors judge the implementation against the BIP itself. Arithmetic facts proved about the Lean BIP-340 (C01Curve): powMod is modular exponentiation (powMod_spec), the inverse is a^(p-2) mod p (inv_spec), a point returned by lift_x has the requested x < p, lies on y^2 = x^3 + 7 (mod p) and has an even y < p (liftX_sound, neg_sq), hence every accepted public key is the x coordinate of a curve point (verifyRef_pubkey_on_curve). The correspondence found that btcec v2.3.4's ParseSignature does not reject s >= n (it is "
                      "reduced mod n): modelled as it is (verifyLib, verifyLib_eq_of_s_lt, out_of_range_s_window: fewer than 2^129 of 2^256 values of s, no such signature can be constructed "
                      "without breaking the scheme); an accepted out-of-range signature would be reported as inauthentic-accepted.",
        "level_note": "Trusted: Lean kernel + standard axioms; go2lean; harness/driver; crypto/sha256 and btcec Schnorr (both cross-checked by the Lean implementations on every case that reaches them), encoding/hex; "
                      "that the Jacobian fast version of the Lean BIP-340 equals the reference version (executed against each other, not proved); SHA-256 collision resistance and BIP-340 unforgeability.",
        "assumptions": ["events carry a non-nil tag list (Event.Valid); invalid UTF-8 cannot pass the gate", "ids/pubkeys/sigs in lower-case hex for the monitors (upper case is compared with the model only)"],
    },
    "C12": {
        "lean_modules": ["MocProps.C12", "MocProps.C12E2E", "MocProps.C12Out", "MocProps.C12Loop"], "theorem_files": ["MocProps/C12.lean", "MocProps/C12E2E.lean", "MocProps/C12Out.lean", "MocProps/C12Loop.lean"],
        "gen_groups": ["Gate", "Serialize", "Valid", "Codec", "Consts", "Sites"], "harness_prop": "ws", "driver_prop": "ws",
        "monitors": ["gate"],
        "n_quick": 1200, "n_thorough": 12000, "thorough_seeds": 3,
        "rule": WS_RULE,
        "level_text": "End to end on the model (C12E2E.gate_end_to_end): with the model's own parser, validator and verifier plugged in, a text frame reaches the handler as m exactly when it parses to m (C10's decoder), m meets the NIP-01 constraints (C11's validClientMsg_iff) and - for an EVENT - the id is the SHA-256 of the serialization and the signature passes (C01's verifyFull_true_iff: Lean SHA-256, Lean BIP-340); every other frame gets exactly one NOTICE (gate_otherwise_one_notice); the ws stream runs this very function against the relay over a real WebSocket. Partial by nature (transport): on the model the gate forwards a frame, unchanged, exactly when it is a text frame holding valid UTF-8 JSON that parses to a valid client "
                      "message which, if an EVENT, verifies (gate_forwards_iff); every other frame yields exactly one NOTICE and nothing else (gate_rejects_otherwise); over a session the handler "
                      "receives exactly the acceptable frames, once each, in order, and forwarded + rejected = frames sent (session_inbound, session_order). Tests and NOTICE texts are regenerated "
                      "from relay.go. Outbound: for every server message whose integers fit the wire types, the decoder of its type applied to its encoding yields the same wire content "
                      "(outbound_decodes_same; OK/CLOSED as prefix++text) and the decoder of every other type rejects it (outbound_not_confused) - on JSON trees. The write loop never waits for "
                      "the peer in its own goroutine (write_loop_never_waits_for_peer, over the regenerated list of its synchronous calls: the structural reason of defect D16) and 15 % of the "
                      "generated sessions run with a 15 ms ping interval, so rejections meet pings in flight. WebSocket framing, the "
                      "read/write goroutines and the byte-level JSON encoding are runtime-validated over real connections with per-frame barriers.",
        "level_note": "Trusted: Lean kernel + standard axioms; go2lean; harness/driver; coder/websocket; utf8.Valid/json.Valid verdicts are taken from the standard library by the harness.",
        "assumptions": ["frames stay within the configured size limit; the rate limiter is configured out of the way"],
    },
}
